//! Shared machinery of C05 / C06: a real radicle storage with one repository, raw COB changes with
//! harness-chosen parents / timestamps / authors / signatures written through
//! `radicle_cob::change::Storage::store`, namespaced COB refs pointed at chosen changes, and
//! evaluation through `radicle_cob::get`.
//!
//! Nothing in here re-implements code under test: changes are written by the repository's own
//! `store`, loaded and evaluated by the repository's own `get`. The harness only knows the DAG it
//! asked for (indices, parent sets) and the ids `store` returned.
#![allow(dead_code)]

use std::collections::{BTreeMap, BTreeSet, HashMap};

use nonempty::NonEmpty;
use radicle::cob::store::encoding;
use radicle::cob::{identity, issue, patch, thread, ObjectId, TypeName};
use radicle::crypto::test::signer::MockSigner;
use radicle::crypto::{PublicKey, Signature};
use radicle::git::Oid;
use radicle::identity::doc::{Doc, RawDoc};
use radicle::identity::{Did, Project, RepoId, Visibility};
use radicle::node::device::Device;
use radicle::node::Alias;
use radicle::storage::git::{Repository, Storage};
use radicle_cob::change::Storage as _;
use radicle_cob::object::Storage as _;
use radicle_cob::signatures::ExtendedSignature;
use radicle_cob::{CollaborativeObject, Embed};
use radicle_crypto::signature::Signer as SigSigner;
use radicle_crypto::Signer as _;
use serde_json::{json, Value};

/// Base timestamp of every world (seconds).
pub const T0: i64 = 1_700_000_000;

/// Actor indices.
pub const A: usize = 0; // founder, delegate
pub const B: usize = 1; // delegate
pub const C: usize = 2; // delegate
pub const N: usize = 3; // not a delegate; author of the issue / patch / thread roots
pub const S: usize = 4; // not a delegate, author of nothing ("stranger")
pub const ACTORS: [&str; 5] = ["A", "B", "C", "N", "S"];

/// A signer that produces a signature which does not verify over the change (it signs other
/// bytes with the right key, so the commit is well-formed and attributed to `key`).
struct BadSigner<'a>(&'a Device<MockSigner>);

impl SigSigner<ExtendedSignature> for BadSigner<'_> {
    fn try_sign(&self, msg: &[u8]) -> Result<ExtendedSignature, radicle_crypto::signature::Error> {
        let mut other = msg.to_vec();
        other.push(0x42);
        let sig: Signature = SigSigner::<Signature>::try_sign(self.0, &other)?;
        Ok(ExtendedSignature { key: *self.0.public_key(), sig })
    }
}

/// What to write as one change.
#[derive(Clone, Debug)]
pub struct ChangeSpec {
    pub ty: TypeName,
    /// Identity commit the change commits to (`None` for identity changes).
    pub resource: Option<Oid>,
    pub parents: Vec<Oid>,
    /// Seconds added to `T0`.
    pub ts: i64,
    pub author: usize,
    pub bad_sig: bool,
    /// One encoded action per blob.
    pub contents: Vec<Vec<u8>>,
    /// `(name, blob)` embeds.
    pub embeds: Vec<(String, Oid)>,
    /// Only purpose: vary the commit id.
    pub salt: u32,
}

pub struct World {
    _tmp: tempfile::TempDir,
    pub storage: Storage,
    pub repo: Repository,
    pub rid: RepoId,
    /// Root commit of the identity COB (= id of the identity object, = `resource` of other COBs).
    pub identity: Oid,
    /// Commits h0 <- h1 on every delegate's default branch (targets of `Mode::Merge`).
    pub heads: [Oid; 2],
    pub root_doc: Doc,
    pub actors: Vec<Device<MockSigner>>,
    /// Namespace keys sorted by their reference-name order (the enumeration order of
    /// `references_glob`).
    pub namespaces: Vec<PublicKey>,
    memo: HashMap<Vec<u8>, Oid>,
    /// Refs currently set by `present`, per object.
    current: HashMap<String, BTreeMap<usize, Oid>>,
    pub writes: u64,
    pub memo_hits: u64,
}

pub const SCRATCH_ENV: &str = "COBDAG_SCRATCH";

/// In the sweep's parent process: create the scratch directory under which every worker builds
/// its repositories, and export it. The caller removes it (drop) before `Ctx::finish`.
pub fn scratch() -> Option<tempfile::TempDir> {
    if std::env::var_os("MCX_CHILD").is_some() {
        return None;
    }
    // Thousands of small ref / object files per second: prefer a memory file system.
    let shm = std::path::Path::new("/dev/shm");
    let dir = match tempfile::Builder::new().prefix("cobdag-").tempdir_in(shm) {
        Ok(d) if std::env::var_os("TMPDIR").is_none() => d,
        _ => tempfile::Builder::new().prefix("cobdag-").tempdir().expect("tempdir"),
    };
    std::env::set_var(SCRATCH_ENV, dir.path());
    Some(dir)
}

fn set_time(ts: i64) {
    // Process-global; every caller is single-threaded (sweep::procs worker, replay, or the
    // single-threaded preparation phase).
    std::env::set_var("GIT_COMMITTER_DATE", (T0 + ts).to_string());
}

pub fn actor(i: usize) -> Device<MockSigner> {
    Device::mock_from_seed([0x10 + i as u8; 32])
}

impl World {
    pub fn new(seed: u64, n_namespaces: usize) -> World {
        // Worker processes end through `process::exit`, which runs no destructors: the sweep's
        // parent process owns one scratch directory (see `scratch`) and removes it at the end.
        let tmp = match std::env::var_os(SCRATCH_ENV) {
            Some(base) => tempfile::Builder::new().prefix("world-").tempdir_in(base).expect("tempdir"),
            None => tempfile::Builder::new().prefix("cobdag-").tempdir().expect("tempdir"),
        };
        let actors: Vec<_> = (0..5).map(actor).collect();
        set_time(0);
        let storage = Storage::open(
            tmp.path().join("storage"),
            radicle::git::UserInfo { alias: Alias::new("harness"), key: *actors[A].public_key() },
        )
        .expect("storage");
        let project = Project::new(
            "acme".try_into().unwrap(),
            "Acme's repository".to_string(),
            radicle::git::refname!("master"),
        )
        .expect("project");
        let delegates: Vec<Did> = [A, B, C].iter().map(|i| Did::from(*actors[*i].public_key())).collect();
        let root_doc = RawDoc::new(project, delegates, 1, Visibility::Public).verified().expect("doc");
        let (repo, identity) = Repository::init(&root_doc, &storage, &actors[A]).expect("repository init");
        let rid = repo.id;
        // Two commits h0 <- h1; every delegate's default branch is at h1, so that a delegate's
        // patch merge at h0 or at h1 is accepted (`Mode::Merge`).
        let heads = {
            use radicle::git::raw;
            let sig = raw::Signature::new("harness", "harness@localhost", &raw::Time::new(T0, 0)).expect("signature");
            let tree = repo.backend.find_tree(repo.backend.treebuilder(None).and_then(|b| b.write()).expect("empty tree")).expect("tree");
            let h0 = repo.backend.commit(None, &sig, &sig, "h0", &tree, &[]).expect("commit h0");
            let h1 = repo.backend.commit(None, &sig, &sig, "h1", &tree, &[&repo.backend.find_commit(h0).expect("h0")]).expect("commit h1");
            for d in [A, B, C] {
                let name = format!("refs/namespaces/{}/refs/heads/master", actors[d].public_key());
                repo.backend.reference(&name, h1, true, "harness").expect("default branch");
            }
            [Oid::from(h0), Oid::from(h1)]
        };
        // Namespace keys: deterministic, `seed` permutes which keys are used (their order is a
        // dimension that the checks enumerate explicitly).
        let mut namespaces: Vec<PublicKey> = (0..n_namespaces)
            .map(|k| {
                let mut s = [0x80u8; 32];
                s[0] = k as u8;
                s[1..9].copy_from_slice(&seed.to_le_bytes());
                *MockSigner::from_seed(s).public_key()
            })
            .collect();
        namespaces.sort_by_key(|k| k.to_string());
        World {
            _tmp: tmp,
            storage,
            repo,
            rid,
            identity,
            heads,
            root_doc,
            actors,
            namespaces,
            memo: HashMap::new(),
            current: HashMap::new(),
            writes: 0,
            memo_hits: 0,
        }
    }

    pub fn did(&self, a: usize) -> Did {
        Did::from(*self.actors[a].public_key())
    }

    /// Write a blob (identity documents of proposed revisions).
    pub fn blob(&self, bytes: &[u8]) -> Oid {
        self.repo.backend.blob(bytes).expect("blob").into()
    }

    /// Write one change through `change::Storage::store` (memoised: the same specification was
    /// already written into this repository and has the same id).
    pub fn write(&mut self, spec: &ChangeSpec) -> Oid {
        let key = format!("{spec:?}").into_bytes();
        if let Some(id) = self.memo.get(&key) {
            self.memo_hits += 1;
            return *id;
        }
        set_time(spec.ts);
        let contents = NonEmpty::from_vec(spec.contents.clone()).expect("non-empty change");
        let template = radicle_cob::change::Template {
            type_name: spec.ty.clone(),
            tips: spec.parents.clone(),
            message: format!("harness change salt={}", spec.salt),
            embeds: spec.embeds.iter().map(|(name, content)| Embed { name: name.clone(), content: *content }).collect(),
            contents,
        };
        let signer = &self.actors[spec.author];
        let entry = if spec.bad_sig {
            self.repo.store(spec.resource, vec![], &BadSigner(signer), template)
        } else {
            self.repo.store(spec.resource, vec![], signer, template)
        }
        .expect("store change");
        self.writes += 1;
        self.memo.insert(key, entry.id);
        entry.id
    }

    pub fn ref_name(&self, ns: usize, ty: &TypeName, obj: &ObjectId) -> String {
        radicle::git::refs::storage::cob(&self.namespaces[ns], ty, obj).to_string()
    }

    /// Make the namespaced refs of the object exactly `refs` (namespace index -> target): refs
    /// are written through `object::Storage::update`; only refs that differ from the previous
    /// presentation of this object are touched.
    pub fn present(&mut self, ty: &TypeName, obj: &ObjectId, refs: &[(usize, Oid)]) {
        let key = format!("{ty}/{obj}");
        if !self.current.contains_key(&key) {
            // First time: remove whatever points at the object (the founder's identity ref).
            self.glob_clear(ty, obj);
            self.current.insert(key.clone(), BTreeMap::new());
        }
        let want: BTreeMap<usize, Oid> = refs.iter().copied().collect();
        assert_eq!(want.len(), refs.len(), "one ref per namespace");
        let cur = self.current.get(&key).cloned().unwrap_or_default();
        for ns in cur.keys() {
            if !want.contains_key(ns) {
                let name = self.ref_name(*ns, ty, obj);
                self.repo.backend.find_reference(&name).and_then(|mut r| r.delete()).expect("delete ref");
            }
        }
        for (ns, target) in &want {
            if cur.get(ns) != Some(target) {
                self.repo.update(&self.namespaces[*ns], ty, obj, target).expect("update ref");
            }
        }
        self.current.insert(key, want);
    }

    pub fn clear(&mut self, ty: &TypeName, obj: &ObjectId) {
        self.present(ty, obj, &[]);
        self.current.remove(&format!("{ty}/{obj}"));
        // Keep the bookkeeping bounded; an object that comes back is glob-cleared again.
    }

    fn glob_clear(&self, ty: &TypeName, obj: &ObjectId) {
        let pattern = radicle::git::refs::storage::cobs(ty, obj);
        let names: Vec<String> = self
            .repo
            .backend
            .references_glob(pattern.as_str())
            .expect("glob")
            .filter_map(|r| r.ok().and_then(|r| r.name().map(|s| s.to_string())))
            .collect();
        for n in names {
            if let Ok(mut r) = self.repo.backend.find_reference(&n) {
                // The identity ref `refs/namespaces/<A>/refs/rad/id` is symbolic to the founder's
                // identity COB ref; nothing in the evaluation path reads it.
                r.delete().expect("delete ref");
            }
        }
    }
}

/// Observation of one evaluation: the object (JSON via its `Serialize`, plus `Debug` for fields
/// that are not serialised) and the complete history graph.
#[derive(Clone, Debug, PartialEq, Eq)]
pub struct Observed {
    pub object: Value,
    pub debug: String,
    /// node -> (parents in the graph, children in the graph)
    pub graph: BTreeMap<Oid, (BTreeSet<Oid>, BTreeSet<Oid>)>,
    pub tips: BTreeSet<Oid>,
    pub manifest: String,
}

impl Observed {
    pub fn nodes(&self) -> BTreeSet<Oid> {
        self.graph.keys().copied().collect()
    }
}

pub fn observe<T: serde::Serialize + std::fmt::Debug>(cob: &CollaborativeObject<T>) -> Observed {
    let h = cob.history();
    let g = h.graph();
    let mut graph = BTreeMap::new();
    for k in g.sorted() {
        let n = g.get(&k).expect("node");
        graph.insert(k, (n.dependencies.clone(), n.dependents.clone()));
    }
    Observed {
        object: serde_json::to_value(cob.object()).expect("object serialises"),
        debug: format!("{:?}", cob.object()),
        graph,
        tips: h.tips(),
        manifest: format!("{:?}", cob.manifest()),
    }
}

/// Result of `cob::get` in comparable form.
#[derive(Clone, Debug, PartialEq, Eq)]
pub enum Eval {
    Object(Box<Observed>),
    Absent,
    Error(String),
}

impl Eval {
    pub fn label(&self) -> &'static str {
        match self {
            Eval::Object(_) => "object",
            Eval::Absent => "absent",
            Eval::Error(_) => "error",
        }
    }
    pub fn observed(&self) -> Option<&Observed> {
        match self {
            Eval::Object(o) => Some(o),
            _ => None,
        }
    }
}

#[derive(Clone, Copy, Debug, PartialEq, Eq, PartialOrd, Ord, serde::Serialize, serde::Deserialize)]
pub enum Kind {
    Issue,
    Patch,
    Thread,
    Identity,
}

pub const KINDS: [Kind; 4] = [Kind::Issue, Kind::Patch, Kind::Thread, Kind::Identity];

impl Kind {
    pub fn name(self) -> &'static str {
        match self {
            Kind::Issue => "issue",
            Kind::Patch => "patch",
            Kind::Thread => "thread",
            Kind::Identity => "identity",
        }
    }
    pub fn type_name(self) -> TypeName {
        match self {
            Kind::Issue => issue::TYPENAME.clone(),
            Kind::Patch => patch::TYPENAME.clone(),
            Kind::Thread => thread::TYPENAME.clone(),
            Kind::Identity => identity::TYPENAME.clone(),
        }
    }
}

fn conv<T: serde::Serialize + std::fmt::Debug>(
    r: Result<Option<CollaborativeObject<T>>, radicle_cob::object::collaboration::error::Retrieve>,
) -> Eval {
    match r {
        Ok(Some(c)) => Eval::Object(Box::new(observe(&c))),
        Ok(None) => Eval::Absent,
        Err(e) => Eval::Error(e.to_string()),
    }
}

/// Evaluate the object through the real `cob::get`.
pub fn eval(w: &World, kind: Kind, obj: &ObjectId) -> Eval {
    let ty = kind.type_name();
    match kind {
        Kind::Issue => conv(radicle_cob::get::<issue::Issue, _>(&w.repo, &ty, obj)),
        Kind::Patch => conv(radicle_cob::get::<patch::Patch, _>(&w.repo, &ty, obj)),
        Kind::Thread => conv(radicle_cob::get::<thread::Thread, _>(&w.repo, &ty, obj)),
        Kind::Identity => conv(radicle_cob::get::<identity::Identity, _>(&w.repo, &ty, obj)),
    }
}

pub fn enc<T: serde::Serialize>(a: &T) -> Vec<u8> {
    encoding::encode(a).expect("encode action")
}

/// An object id that never names a change.
pub fn missing_id() -> Oid {
    "ffffffffffffffffffffffffffffffffffffffff".parse().unwrap()
}

// ------------------------------------------------------------------------------------------------
// DAG family

/// A DAG on nodes `0..=n` (0 = root): `parents[i-1]` is the non-empty bit mask over `0..i` of the
/// parents of node `i`.
#[derive(Clone, Debug, PartialEq, Eq, serde::Serialize, serde::Deserialize)]
pub struct Shape {
    pub parents: Vec<u32>,
}

impl Shape {
    pub fn n(&self) -> usize {
        self.parents.len()
    }
    pub fn count(n: usize) -> u64 {
        (1..=n as u32).map(|i| (1u64 << i) - 1).product()
    }
    /// `idx < count(n)`; last node varies fastest.
    pub fn nth(n: usize, mut idx: u64) -> Shape {
        let mut parents = vec![0u32; n];
        for i in (1..=n).rev() {
            let r = (1u64 << i) - 1;
            parents[i - 1] = (idx % r) as u32 + 1;
            idx /= r;
        }
        Shape { parents }
    }
    pub fn parents_of(&self, i: usize) -> Vec<usize> {
        if i == 0 {
            return vec![];
        }
        (0..i).filter(|p| self.parents[i - 1] & (1 << p) != 0).collect()
    }
    pub fn children_of(&self, p: usize) -> Vec<usize> {
        (p + 1..=self.n()).filter(|c| self.parents[c - 1] & (1 << p) != 0).collect()
    }
    /// Proper descendants.
    pub fn descendants(&self, p: usize) -> BTreeSet<usize> {
        let mut out = BTreeSet::new();
        for c in p + 1..=self.n() {
            if self.parents_of(c).iter().any(|q| *q == p || out.contains(q)) {
                out.insert(c);
            }
        }
        out
    }
    /// Proper ancestors.
    pub fn ancestors(&self, c: usize) -> BTreeSet<usize> {
        let mut out = BTreeSet::new();
        let mut stack = self.parents_of(c);
        while let Some(p) = stack.pop() {
            if out.insert(p) {
                stack.extend(self.parents_of(p));
            }
        }
        out
    }
    /// Tips of the sub-DAG induced by the ancestor-closed node set `keep`.
    pub fn tips_within(&self, keep: &BTreeSet<usize>) -> Vec<usize> {
        keep.iter().copied().filter(|p| !self.children_of(*p).iter().any(|c| keep.contains(c))).collect()
    }
    pub fn tips(&self) -> Vec<usize> {
        (0..=self.n()).filter(|p| self.children_of(*p).is_empty()).collect()
    }
    /// True when some parent edge is implied by another one (parent that is an ancestor of
    /// another parent).
    pub fn has_redundant_edge(&self) -> bool {
        (1..=self.n()).any(|i| {
            let ps = self.parents_of(i);
            ps.iter().any(|p| ps.iter().any(|q| q != p && self.ancestors(*q).contains(p)))
        })
    }
    /// Coarse label for histograms.
    pub fn class(&self) -> String {
        let n = self.n();
        let tips = self.tips().len();
        let merges = (1..=n).filter(|i| self.parents_of(*i).len() > 1).count();
        format!("n{n}/tips{tips}/merges{merges}{}", if self.has_redundant_edge() { "/redundant-edge" } else { "" })
    }
}

/// All permutations of `0..n` in lexicographic order.
pub fn permutations(n: usize) -> Vec<Vec<usize>> {
    fn rec(cur: &mut Vec<usize>, used: &mut Vec<bool>, n: usize, out: &mut Vec<Vec<usize>>) {
        if cur.len() == n {
            out.push(cur.clone());
            return;
        }
        for i in 0..n {
            if !used[i] {
                used[i] = true;
                cur.push(i);
                rec(cur, used, n, out);
                cur.pop();
                used[i] = false;
            }
        }
    }
    let mut out = vec![];
    rec(&mut vec![], &mut vec![false; n], n, &mut out);
    out
}

/// `rank[i]` = position of element `i` when the slice is sorted.
pub fn ranks<T: Ord>(xs: &[T]) -> Vec<usize> {
    let mut idx: Vec<usize> = (0..xs.len()).collect();
    idx.sort_by(|a, b| xs[*a].cmp(&xs[*b]));
    let mut r = vec![0; xs.len()];
    for (pos, i) in idx.iter().enumerate() {
        r[*i] = pos;
    }
    r
}

/// Does the relative order of `ids` agree with the target ranks restricted to the same elements?
pub fn order_consistent(ids: &[Oid], target_rank: &[usize]) -> bool {
    for i in 0..ids.len() {
        for j in 0..i {
            if (ids[i] < ids[j]) != (target_rank[i] < target_rank[j]) {
                return false;
            }
        }
    }
    true
}

pub const SALT_CAP: u32 = 400;

pub fn oid_json(ids: &[Oid]) -> Value {
    json!(ids.iter().map(|o| o.to_string()).collect::<Vec<_>>())
}

/// Short description of the difference of two observations (top-level JSON fields that differ,
/// or the graph).
pub fn diff_fields(a: &Observed, b: &Observed) -> Vec<String> {
    let mut out = vec![];
    if let (Some(x), Some(y)) = (a.object.as_object(), b.object.as_object()) {
        let keys: BTreeSet<&String> = x.keys().chain(y.keys()).collect();
        for k in keys {
            if x.get(k) != y.get(k) {
                out.push(k.clone());
            }
        }
    } else if a.object != b.object {
        out.push("object".into());
    }
    if out.is_empty() && a.debug != b.debug {
        out.push("debug-only".into());
    }
    out
}

// ------------------------------------------------------------------------------------------------
// Plans: which change does what

/// How one non-root change is constructed.
#[derive(Clone, Copy, Debug, PartialEq, Eq, PartialOrd, Ord, serde::Serialize, serde::Deserialize)]
pub enum Mode {
    /// Actions that the object type accepts in a linear history (the "recorder" payload).
    Valid,
    /// Valid payload, commit signature that does not verify.
    BadSig,
    /// `pos` actions that are accepted, followed by one action that the type rejects for
    /// `reason` (index into `reasons(kind)`).
    Rejected { pos: u8, reason: u8 },
    /// A sequence of 0..=2 accepted actions of *different kinds* (`prefix` indexes
    /// `prefix_seqs(kind)`) — each authorised for the acting key — followed by one action that
    /// the type rejects for `reason`. `actor`: 0 a delegate, 1 the non-delegate N (the object's
    /// author when the plan's root author is N), 2 the stranger S.
    Rich { prefix: u8, reason: u8, actor: u8 },
    /// Patches only (other types: same as `Valid`): change `i` is a merge of the root revision by
    /// the delegate `[A, B, C][(i - 1) % 3]` at commit `World::heads[(i - 1) % 2]`, both of which
    /// are on every delegate's default branch. With threshold 1 two such changes leave the patch
    /// with two sufficiently supported merges (`State::Open { conflicts }`).
    Merge,
}

/// Kinds of accepted actions a rich prefix is drawn from.
#[derive(Clone, Copy, Debug, PartialEq, Eq)]
pub enum PrefixKind {
    /// Issue / patch `edit` (title).
    Edit,
    Lifecycle,
    Label,
    Assign,
    /// Issue `comment`, patch `revision.comment`, thread `comment`.
    Comment,
    /// Patch `review`.
    Review,
    /// Thread `edit` of the root comment.
    EditRoot,
    /// Thread `react` to the root comment.
    ReactRoot,
}

impl PrefixKind {
    fn name(self) -> &'static str {
        match self {
            PrefixKind::Edit => "edit",
            PrefixKind::Lifecycle => "lifecycle",
            PrefixKind::Label => "label",
            PrefixKind::Assign => "assign",
            PrefixKind::Comment => "comment",
            PrefixKind::Review => "review",
            PrefixKind::EditRoot => "edit-root-comment",
            PrefixKind::ReactRoot => "react-root-comment",
        }
    }
    /// Appends to a thread timeline (a second one in the same change trips a `debug_assert`).
    fn pushes_timeline(self) -> bool {
        matches!(self, PrefixKind::Comment | PrefixKind::EditRoot | PrefixKind::ReactRoot)
    }
}

fn prefix_alphabet(kind: Kind) -> &'static [PrefixKind] {
    use PrefixKind::*;
    match kind {
        Kind::Issue => &[Edit, Lifecycle, Label, Assign, Comment],
        Kind::Patch => &[Edit, Lifecycle, Label, Assign, Comment, Review],
        Kind::Thread => &[Comment, EditRoot, ReactRoot],
        Kind::Identity => &[],
    }
}

/// Every sequence of 0, 1 or 2 prefix kinds of the type (with repetition), in a fixed order.
pub fn prefix_seqs(kind: Kind) -> Vec<Vec<PrefixKind>> {
    let al = prefix_alphabet(kind);
    let mut v = vec![vec![]];
    for a in al {
        v.push(vec![*a]);
    }
    for a in al {
        for b in al {
            v.push(vec![*a, *b]);
        }
    }
    v
}

/// May `actor` perform an action of this kind (by the type's own authorisation rules as stated
/// in the property's anchors: delegates everything; the object's author title, lifecycle and
/// comments / reviews; anyone comments / reviews)?
fn prefix_authorised(kind: Kind, k: PrefixKind, actor: u8, root_author: usize) -> bool {
    use PrefixKind::*;
    if kind == Kind::Thread || actor == 0 {
        return true;
    }
    match k {
        Comment | Review => true,
        Edit | Lifecycle => actor == 1 && root_author == N,
        _ => false,
    }
}

/// Is the combination part of the space? (authorised prefix; the reason is one this actor is
/// rejected for; no second timeline push in one change.)
pub fn rich_admissible(kind: Kind, root_author: usize, prefix: &[PrefixKind], reason: &str, actor: u8) -> bool {
    if kind == Kind::Identity {
        return false;
    }
    if kind == Kind::Thread && (prefix.len() > 1 || actor != 0) {
        return false;
    }
    if !prefix.iter().all(|k| prefix_authorised(kind, *k, actor, root_author)) {
        return false;
    }
    if prefix.iter().filter(|k| k.pushes_timeline()).count() > 1 {
        return false;
    }
    // `thread::edit` pushes the timeline (behind a debug_assert) before it looks the comment up.
    if (reason == "comment-edit-missing" || reason == "edit-missing") && prefix.iter().any(|k| k.pushes_timeline()) {
        return false;
    }
    match reason {
        "label-by-non-delegate" | "assign-by-non-delegate" | "merge-by-non-delegate" => actor == 1,
        "edit-by-stranger" => actor == 2,
        _ => actor != 2,
    }
}

/// A rejection reason of an object type.
#[derive(Clone, Copy, Debug)]
pub struct Reason {
    pub name: &'static str,
    /// Largest number of accepted actions that can precede the rejected one without tripping
    /// the implementation's `debug_assert!(!timeline.contains(..))` (a second successful
    /// timeline-pushing action of one change panics in debug builds; for the identity, any
    /// second action that is reached after a first one was applied or tolerated does).
    pub max_pos: u8,
    /// The rejection does not depend on the rest of the history: wherever the change sits, the
    /// object type must reject it.
    pub certain: bool,
}

const fn r(name: &'static str, max_pos: u8, certain: bool) -> Reason {
    Reason { name, max_pos, certain }
}

const ISSUE_REASONS: &[Reason] = &[
            r("bad-title", 2, true),
            r("reply-to-missing", 2, true),
            r("comment-edit-missing", 2, true),
            r("redact-root-comment", 2, true),
            r("label-by-non-delegate", 2, true),
            r("assign-by-non-delegate", 2, true),
            r("empty-comment", 2, true),
            r("edit-by-stranger", 1, true),
];
const PATCH_REASONS: &[Reason] = &[
            r("redact-root-revision", 2, true),
            r("revision-edit-missing", 2, true),
            r("review-redact-missing", 2, true),
            r("label-by-non-delegate", 2, true),
            r("assign-by-non-delegate", 2, true),
            r("merge-by-non-delegate", 2, true),
            r("revision-comment-reply-missing", 2, true),
            r("revision-comment-empty", 2, true),
            r("edit-by-stranger", 1, true),
];
const THREAD_REASONS: &[Reason] = &[
            r("reply-to-missing", 1, true),
            r("edit-missing", 0, true),
            r("redact-missing", 1, true),
            r("react-missing", 1, true),
            r("empty-comment", 1, true),
            r("empty-edit", 1, true),
];
const IDENTITY_REASONS: &[Reason] = &[
            r("accept-missing-revision", 1, true),
            r("revision-bad-doc-signature", 1, true),
            r("revision-without-parent", 1, true),
            r("redact-missing-revision", 1, true),
            r("accept-bad-signature", 0, false),
            r("duplicate-verdict", 0, false),
            r("action-by-non-delegate", 0, false),
            r("doc-unchanged", 0, false),
];

pub fn reasons(kind: Kind) -> &'static [Reason] {
    match kind {
        Kind::Issue => ISSUE_REASONS,
        Kind::Patch => PATCH_REASONS,
        Kind::Thread => THREAD_REASONS,
        Kind::Identity => IDENTITY_REASONS,
    }
}

impl Mode {
    pub fn label(&self, kind: Kind) -> String {
        match self {
            Mode::Valid => "valid".into(),
            Mode::BadSig => "bad-commit-signature".into(),
            Mode::Merge => "delegate-merge".into(),
            Mode::Rejected { pos, reason } => format!("{}@action{}", reasons(kind)[*reason as usize].name, pos + 1),
            Mode::Rich { prefix, reason, actor } => format!(
                "{}@after[{}]/by-{}",
                reasons(kind)[*reason as usize].name,
                prefix_seqs(kind)[*prefix as usize].iter().map(|k| k.name()).collect::<Vec<_>>().join(","),
                ["delegate", "non-delegate-N", "stranger"][*actor as usize]
            ),
        }
    }
    /// Number of accepted actions before the rejected one.
    pub fn prefix_len(&self, kind: Kind) -> usize {
        match self {
            Mode::Rejected { pos, .. } => *pos as usize,
            Mode::Rich { prefix, .. } => prefix_seqs(kind)[*prefix as usize].len(),
            _ => 0,
        }
    }
    /// Every admissible rich mode of the kind for objects created by `root_author`.
    pub fn rich_all(kind: Kind, root_author: usize) -> Vec<Mode> {
        let seqs = prefix_seqs(kind);
        let mut v = vec![];
        for (ri, r) in reasons(kind).iter().enumerate() {
            for actor in 0..3u8 {
                for (pi, p) in seqs.iter().enumerate() {
                    if rich_admissible(kind, root_author, p, r.name, actor) {
                        v.push(Mode::Rich { prefix: pi as u8, reason: ri as u8, actor });
                    }
                }
            }
        }
        v
    }
    pub fn is_valid(&self) -> bool {
        matches!(self, Mode::Valid)
    }
    /// Every mode of the kind: valid, bad signature, every reason at every admissible position.
    pub fn all(kind: Kind) -> Vec<Mode> {
        let mut v = vec![Mode::Valid, Mode::BadSig];
        for (ri, r) in reasons(kind).iter().enumerate() {
            for pos in 0..=r.max_pos {
                v.push(Mode::Rejected { pos, reason: ri as u8 });
            }
        }
        v
    }
    pub fn certain_invalid(&self, kind: Kind) -> bool {
        match self {
            Mode::Valid | Mode::Merge => false,
            Mode::BadSig => true,
            Mode::Rejected { reason, .. } | Mode::Rich { reason, .. } => reasons(kind)[*reason as usize].certain,
        }
    }
}

fn default_root_author() -> usize {
    N
}

#[derive(Clone, Debug, PartialEq, Eq, serde::Serialize, serde::Deserialize)]
pub struct Plan {
    pub kind: Kind,
    pub shape: Shape,
    /// Timestamp offset of each non-root change.
    pub ts: Vec<i64>,
    pub modes: Vec<Mode>,
    /// Target rank of the ids of the non-root changes (`None`: whatever salt 0 gives).
    pub rank: Option<Vec<usize>>,
    /// Who created the object: the delegate A or the non-delegate N (ignored for the identity).
    #[serde(default = "default_root_author")]
    pub root_author: usize,
}

#[derive(Clone, Debug)]
pub struct Built {
    /// `ids[0]` = root.
    pub ids: Vec<Oid>,
    pub obj: ObjectId,
    pub specs: Vec<ChangeSpec>,
    pub salts: Vec<u32>,
    /// Achieved rank of the non-root ids.
    pub rank: Vec<usize>,
    pub rank_ok: bool,
}

struct Rendered {
    author: usize,
    contents: Vec<Vec<u8>>,
    embeds: Vec<(String, Oid)>,
}

/// Identity documents proposed by change `i` (distinct from the root document and from each
/// other; A, B, C stay delegates in all of them so that authors remain delegates).
fn proposed_doc(w: &World, i: usize) -> Doc {
    let n = w.did(N);
    let s = w.did(S);
    w.root_doc
        .clone()
        .with_edits(|raw| match i % 6 {
            1 => raw.threshold = 2,
            2 => raw.visibility = Visibility::Private { allow: BTreeSet::from([n]) },
            3 => raw.delegates.push(n),
            4 => raw.threshold = 3,
            5 => raw.visibility = Visibility::Private { allow: BTreeSet::from([s]) },
            _ => {
                raw.delegates.push(s);
                raw.threshold = 2;
            }
        })
        .expect("proposed doc verifies")
}

fn near_parent(shape: &Shape, j: usize) -> Option<usize> {
    shape.parents_of(j).into_iter().filter(|p| *p != 0).max()
}

/// Is the last action of the valid payload of issue change `j` a new comment?
fn issue_commented(shape: &Shape, j: usize) -> bool {
    match near_parent(shape, j) {
        Some(p) if j % 3 != 2 && issue_commented(shape, p) => false,
        _ => true,
    }
}

/// Is the valid payload of thread change `j` a new comment?
fn thread_commented(shape: &Shape, j: usize) -> bool {
    match (j % 3, near_parent(shape, j)) {
        (2, _) => false,
        (_, Some(p)) if thread_commented(shape, p) => false,
        _ => true,
    }
}

fn label(s: String) -> radicle::cob::Label {
    radicle::cob::Label::new(s).expect("label")
}

fn reaction() -> radicle::cob::Reaction {
    radicle::cob::Reaction::new('\u{1F600}').expect("reaction")
}

/// What change `i` of a plan looks like, given the ids of the changes before it.
///
/// "Recorder" payloads: every valid change writes order-sensitive registers (title, state,
/// labels) and appends to / edits / redacts in a timeline, so the final object is a record of the
/// order in which the implementation applied the changes.
fn render(w: &World, plan: &Plan, i: usize, ids: &[Oid]) -> Rendered {
    let kind = plan.kind;
    let mode = plan.modes[i - 1];
    let root = ids[0];
    let parents = plan.shape.parents_of(i);
    // Nearest non-root parent (largest index).
    let near = parents.iter().copied().filter(|p| *p != 0).max();
    let (pos, reason) = match mode {
        Mode::Rejected { pos, reason } => (pos as usize, Some(reasons(kind)[reason as usize].name)),
        Mode::Rich { reason, .. } => (usize::MAX, Some(reasons(kind)[reason as usize].name)),
        _ => (usize::MAX, None),
    };
    // Rich mode: the kinds of the accepted actions and who acts.
    let rich: Option<(Vec<PrefixKind>, usize)> = match mode {
        Mode::Rich { prefix, actor, .. } => Some((prefix_seqs(kind)[prefix as usize].clone(), [[A, B][i % 2], N, S][actor as usize])),
        _ => None,
    };
    // The non-delegate N may write title and state only of objects it created.
    let n_is_author = plan.root_author == N;
    match kind {
        Kind::Issue => {
            use issue::Action as Ac;
            let mut author = [A, B, N][i % 3];
            // Accepted actions of this change, in order. Only the last one touches the thread
            // timeline.
            let mut ok: Vec<Ac> = vec![
                Ac::Edit { title: format!("title {i}") },
                Ac::Lifecycle {
                    state: if i % 2 == 1 { issue::State::Closed { reason: issue::CloseReason::Solved } } else { issue::State::Open },
                },
            ];
            if author != N {
                ok.push(Ac::Label { labels: BTreeSet::from([label(format!("l{i}"))]) });
            } else if !n_is_author {
                ok.clear();
            }
            let third = match near {
                // Delegates (i % 3 in {0, 1}) redact / edit the comment made by the nearest parent,
                // when that parent's valid payload is a comment (its change id is the comment id).
                Some(p) if i % 3 == 0 && issue_commented(&plan.shape, p) => Ac::CommentRedact { id: ids[p] },
                Some(p) if i % 3 == 1 && issue_commented(&plan.shape, p) => Ac::CommentEdit { id: ids[p], body: format!("edited by {i}"), embeds: vec![] },
                _ => Ac::Comment { body: format!("comment {i}"), reply_to: Some(root), embeds: vec![] },
            };
            let acts: Vec<Ac> = match reason {
                None => {
                    ok.push(third);
                    ok
                }
                Some(name) => {
                    let bad = match name {
                        "bad-title" => Ac::Edit { title: format!("bad {i}\n") },
                        "reply-to-missing" => Ac::Comment { body: format!("comment {i}"), reply_to: Some(missing_id()), embeds: vec![] },
                        "comment-edit-missing" => Ac::CommentEdit { id: missing_id(), body: "x".into(), embeds: vec![] },
                        "redact-root-comment" => Ac::CommentRedact { id: root },
                        "label-by-non-delegate" => {
                            author = N;
                            Ac::Label { labels: BTreeSet::from([label(format!("denied{i}"))]) }
                        }
                        "assign-by-non-delegate" => {
                            author = N;
                            Ac::Assign { assignees: BTreeSet::from([w.did(A)]) }
                        }
                        "empty-comment" => Ac::Comment { body: String::new(), reply_to: Some(root), embeds: vec![] },
                        "edit-by-stranger" => {
                            author = S;
                            Ac::Edit { title: format!("stranger {i}") }
                        }
                        other => unreachable!("issue reason {other}"),
                    };
                    let mut prefix: Vec<Ac> = if let Some((kinds, actor)) = &rich {
                        author = *actor;
                        kinds
                            .iter()
                            .enumerate()
                            .map(|(k, kind)| match kind {
                                PrefixKind::Edit => Ac::Edit { title: format!("title {i}.{k}") },
                                PrefixKind::Lifecycle => Ac::Lifecycle {
                                    state: issue::State::Closed { reason: if k == 0 { issue::CloseReason::Solved } else { issue::CloseReason::Other } },
                                },
                                PrefixKind::Label => Ac::Label { labels: BTreeSet::from([label(format!("p{i}.{k}"))]) },
                                PrefixKind::Assign => Ac::Assign { assignees: BTreeSet::from([w.did([B, C][k % 2])]) },
                                PrefixKind::Comment => Ac::Comment { body: format!("comment {i}"), reply_to: Some(root), embeds: vec![] },
                                other => unreachable!("issue prefix {other:?}"),
                            })
                            .collect()
                    } else if author == S || (author == N && !n_is_author) {
                        // A stranger may only comment.
                        let mut v = vec![Ac::Comment { body: format!("comment {i}"), reply_to: Some(root), embeds: vec![] }];
                        v.truncate(pos);
                        v
                    } else {
                        // Title and state may be written by delegates and by the issue author N.
                        ok.into_iter().take(2.min(pos)).collect()
                    };
                    prefix.push(bad);
                    prefix
                }
            };
            Rendered { author, contents: acts.iter().map(enc).collect(), embeds: vec![] }
        }
        Kind::Patch => {
            use patch::Action as Ac;
            let mut author = [A, B, N][i % 3];
            let rev = patch::RevisionId::from(root);
            if mode == Mode::Merge {
                let merge = Ac::Merge { revision: rev, commit: w.heads[(i - 1) % 2] };
                return Rendered { author: [A, B, C][(i - 1) % 3], contents: vec![enc(&merge)], embeds: vec![] };
            }
            let mut ok: Vec<Ac> = vec![
                Ac::Edit { title: format!("title {i}"), target: patch::MergeTarget::Delegates },
                Ac::Lifecycle { state: [patch::Lifecycle::Draft, patch::Lifecycle::Open, patch::Lifecycle::Archived][i % 3].clone() },
            ];
            if author != N {
                ok.push(Ac::Label { labels: BTreeSet::from([label(format!("l{i}"))]) });
            } else if !n_is_author {
                ok.clear();
            }
            let third = match i % 4 {
                1 => Ac::RevisionComment { revision: rev, location: None, body: format!("comment {i}"), reply_to: None, embeds: vec![] },
                2 => Ac::Review {
                    revision: rev,
                    summary: Some(format!("review {i}")),
                    verdict: Some(if i % 8 == 2 { patch::Verdict::Accept } else { patch::Verdict::Reject }),
                    labels: vec![],
                },
                3 => Ac::Revision { description: format!("revision {i}"), base: w.identity, oid: root, resolves: BTreeSet::new() },
                _ => match near {
                    // The nearest parent proposed a revision (p % 4 == 3): a delegate redacts it.
                    Some(p) if author != N && p % 4 == 3 => Ac::RevisionRedact { revision: patch::RevisionId::from(ids[p]) },
                    _ => Ac::RevisionReact { revision: rev, location: None, reaction: reaction(), active: true },
                },
            };
            let acts: Vec<Ac> = match reason {
                None => {
                    ok.push(third);
                    ok
                }
                Some(name) => {
                    let bad = match name {
                        "redact-root-revision" => Ac::RevisionRedact { revision: rev },
                        "revision-edit-missing" => Ac::RevisionEdit { revision: patch::RevisionId::from(missing_id()), description: "x".into(), embeds: vec![] },
                        "review-redact-missing" => Ac::ReviewRedact { review: patch::ReviewId::from(missing_id()) },
                        "label-by-non-delegate" => {
                            author = N;
                            Ac::Label { labels: BTreeSet::from([label(format!("denied{i}"))]) }
                        }
                        "assign-by-non-delegate" => {
                            author = N;
                            Ac::Assign { assignees: BTreeSet::from([w.did(A)]) }
                        }
                        "merge-by-non-delegate" => {
                            author = N;
                            Ac::Merge { revision: rev, commit: w.identity }
                        }
                        "revision-comment-reply-missing" => {
                            Ac::RevisionComment { revision: rev, location: None, body: format!("comment {i}"), reply_to: Some(missing_id()), embeds: vec![] }
                        }
                        "revision-comment-empty" => Ac::RevisionComment { revision: rev, location: None, body: String::new(), reply_to: None, embeds: vec![] },
                        "edit-by-stranger" => {
                            author = S;
                            Ac::Edit { title: format!("stranger {i}"), target: patch::MergeTarget::Delegates }
                        }
                        other => unreachable!("patch reason {other}"),
                    };
                    let mut prefix: Vec<Ac> = if let Some((kinds, actor)) = &rich {
                        author = *actor;
                        kinds
                            .iter()
                            .enumerate()
                            .map(|(k, kind)| match kind {
                                PrefixKind::Edit => Ac::Edit { title: format!("title {i}.{k}"), target: patch::MergeTarget::Delegates },
                                PrefixKind::Lifecycle => Ac::Lifecycle { state: if k == 0 { patch::Lifecycle::Archived } else { patch::Lifecycle::Draft } },
                                PrefixKind::Label => Ac::Label { labels: BTreeSet::from([label(format!("p{i}.{k}"))]) },
                                PrefixKind::Assign => Ac::Assign { assignees: BTreeSet::from([w.did([B, C][k % 2])]) },
                                PrefixKind::Comment => Ac::RevisionComment { revision: rev, location: None, body: format!("comment {i}"), reply_to: None, embeds: vec![] },
                                PrefixKind::Review => Ac::Review { revision: rev, summary: Some(format!("review {i}.{k}")), verdict: Some(patch::Verdict::Accept), labels: vec![] },
                                other => unreachable!("patch prefix {other:?}"),
                            })
                            .collect()
                    } else if author == S || (author == N && !n_is_author) {
                        let mut v = vec![Ac::RevisionComment { revision: rev, location: None, body: format!("comment {i}"), reply_to: None, embeds: vec![] }];
                        v.truncate(pos);
                        v
                    } else {
                        ok.into_iter().take(2.min(pos)).collect()
                    };
                    prefix.push(bad);
                    prefix
                }
            };
            Rendered { author, contents: acts.iter().map(enc).collect(), embeds: vec![] }
        }
        Kind::Thread => {
            use thread::Action as Ac;
            let author = [A, B, N][i % 3];
            // Exactly one timeline-pushing action per valid change.
            let good = match (i % 3, near) {
                (2, _) => Ac::Edit { id: root, body: format!("edit {i}") },
                (0, Some(p)) if thread_commented(&plan.shape, p) => Ac::Redact { id: ids[p] },
                (1, Some(p)) if thread_commented(&plan.shape, p) => Ac::React { to: ids[p], reaction: reaction(), active: true },
                _ => Ac::Comment { body: format!("comment {i}"), reply_to: Some(root) },
            };
            let acts: Vec<Ac> = match reason {
                None => vec![good],
                Some(name) => {
                    let bad = match name {
                        "reply-to-missing" => Ac::Comment { body: format!("comment {i}"), reply_to: Some(missing_id()) },
                        "edit-missing" => Ac::Edit { id: missing_id(), body: "x".into() },
                        "redact-missing" => Ac::Redact { id: missing_id() },
                        "react-missing" => Ac::React { to: missing_id(), reaction: reaction(), active: true },
                        "empty-comment" => Ac::Comment { body: String::new(), reply_to: Some(root) },
                        "empty-edit" => Ac::Edit { id: root, body: String::new() },
                        other => unreachable!("thread reason {other}"),
                    };
                    let mut prefix: Vec<Ac> = if let Some((kinds, _)) = &rich {
                        kinds
                            .iter()
                            .map(|kind| match kind {
                                PrefixKind::Comment => Ac::Comment { body: format!("comment {i}"), reply_to: Some(root) },
                                PrefixKind::EditRoot => Ac::Edit { id: root, body: format!("edit {i}") },
                                PrefixKind::ReactRoot => Ac::React { to: root, reaction: reaction(), active: true },
                                other => unreachable!("thread prefix {other:?}"),
                            })
                            .collect()
                    } else {
                        let mut v = vec![Ac::Comment { body: format!("comment {i}"), reply_to: Some(root) }];
                        v.truncate(pos);
                        v
                    };
                    prefix.push(bad);
                    prefix
                }
            };
            Rendered { author, contents: acts.iter().map(enc).collect(), embeds: vec![] }
        }
        Kind::Identity => {
            use identity::Action as Ac;
            let mut author = [A, B, C][i % 3];
            // Nearest ancestor change (largest index) whose valid payload proposed a revision.
            let proposes = |j: usize| -> bool {
                // A change proposes when none of its ancestors proposed; decided recursively on
                // the shape only.
                fn rec(shape: &Shape, j: usize) -> bool {
                    !shape.ancestors(j).iter().any(|a| *a != 0 && rec(shape, *a))
                }
                rec(&plan.shape, j)
            };
            let target = plan.shape.ancestors(i).into_iter().filter(|a| *a != 0 && proposes(*a)).max();
            let mut embeds = vec![];
            let propose = |author: usize, good_sig: bool, with_parent: bool, unchanged: bool, embeds: &mut Vec<(String, Oid)>| -> Ac {
                let doc = if unchanged { w.root_doc.clone() } else { proposed_doc(w, i) };
                let (blob, bytes, sig) = doc.sign(&w.actors[if good_sig { author } else { S }]).expect("sign doc");
                let written = w.blob(&bytes);
                assert_eq!(written, blob);
                embeds.push(("radicle.json".to_string(), blob));
                Ac::Revision {
                    title: format!("revision {i}"),
                    description: String::new(),
                    blob,
                    parent: if with_parent { Some(root) } else { None },
                    signature: sig,
                }
            };
            // The accepted action of this change.
            let good = match target {
                None => propose(author, true, true, false, &mut embeds),
                Some(q) => {
                    // Someone other than the proposer of q votes (or edits / redacts).
                    let proposer = [A, B, C][q % 3];
                    if author == proposer {
                        author = [A, B, C][(q + 1) % 3];
                    }
                    let doc = proposed_doc(w, q);
                    match i % 4 {
                        3 => Ac::RevisionReject { revision: ids[q] },
                        _ => Ac::RevisionAccept { revision: ids[q], signature: doc.signature_of(&w.actors[author]).expect("sign") },
                    }
                }
            };
            let acts: Vec<Ac> = match reason {
                None => vec![good],
                Some(name) => {
                    let bad = match name {
                        "accept-missing-revision" => {
                            Ac::RevisionAccept { revision: missing_id(), signature: w.root_doc.signature_of(&w.actors[author]).expect("sign") }
                        }
                        "revision-bad-doc-signature" => propose(author, false, true, false, &mut embeds),
                        "revision-without-parent" => propose(author, true, false, false, &mut embeds),
                        "redact-missing-revision" => Ac::RevisionRedact { revision: missing_id() },
                        "accept-bad-signature" => {
                            let q = target.map(|q| ids[q]).unwrap_or(root);
                            // Signature by the right key over the wrong bytes.
                            Ac::RevisionAccept { revision: q, signature: w.root_doc.signature_of(&w.actors[author]).expect("sign") }
                        }
                        "duplicate-verdict" => match target {
                            Some(q) => {
                                // The proposer already has an accepting verdict on q.
                                author = [A, B, C][q % 3];
                                Ac::RevisionReject { revision: ids[q] }
                            }
                            None => Ac::RevisionReject { revision: root },
                        },
                        "action-by-non-delegate" => {
                            author = N;
                            Ac::RevisionReject { revision: target.map(|q| ids[q]).unwrap_or(root) }
                        }
                        "doc-unchanged" => propose(author, true, true, true, &mut embeds),
                        other => unreachable!("identity reason {other}"),
                    };
                    // Two `revision` actions in one change trip
                    // `debug_assert!(!self.revisions.contains_key(&entry))`: outside the space.
                    let both_propose = matches!(good, Ac::Revision { .. }) && matches!(bad, Ac::Revision { .. });
                    let mut prefix = vec![good];
                    prefix.truncate(if both_propose { 0 } else { pos });
                    prefix.push(bad);
                    prefix
                }
            };
            Rendered { author, contents: acts.iter().map(enc).collect(), embeds }
        }
    }
}

/// The root change of an object of `kind` (the identity root is the repository's own).
fn root_spec(w: &World, kind: Kind, tag: u32, root_author: usize) -> Option<ChangeSpec> {
    let contents = match kind {
        Kind::Issue => vec![
            enc(&issue::Action::Comment { body: "root comment".into(), reply_to: None, embeds: vec![] }),
            enc(&issue::Action::Edit { title: "title 0".into() }),
        ],
        Kind::Patch => vec![
            enc(&patch::Action::Revision { description: "revision 0".into(), base: w.identity, oid: w.identity, resolves: BTreeSet::new() }),
            enc(&patch::Action::Edit { title: "title 0".into(), target: patch::MergeTarget::Delegates }),
        ],
        Kind::Thread => vec![enc(&thread::Action::Comment { body: "root comment".into(), reply_to: None })],
        Kind::Identity => return None,
    };
    Some(ChangeSpec {
        ty: kind.type_name(),
        resource: Some(w.identity),
        parents: vec![],
        ts: 0,
        author: root_author,
        bad_sig: false,
        contents,
        embeds: vec![],
        salt: tag,
    })
}

/// Write the plan's changes (parents before children), searching salts so that the ids of the
/// non-root changes have the plan's rank order.
pub fn build(w: &mut World, plan: &Plan) -> Built {
    let kind = plan.kind;
    let n = plan.shape.n();
    let mut specs = vec![];
    let root = match root_spec(w, kind, 0, plan.root_author) {
        Some(spec) => {
            let id = w.write(&spec);
            specs.push(spec);
            id
        }
        None => {
            specs.push(ChangeSpec {
                ty: kind.type_name(),
                resource: None,
                parents: vec![],
                ts: 0,
                author: A,
                bad_sig: false,
                contents: vec![],
                embeds: vec![],
                salt: 0,
            });
            w.identity
        }
    };
    let mut ids = vec![root];
    let mut salts = vec![0u32];
    let mut rank_ok = true;
    for i in 1..=n {
        let r = render(w, plan, i, &ids);
        let mut spec = ChangeSpec {
            ty: kind.type_name(),
            resource: if kind == Kind::Identity { None } else { Some(w.identity) },
            parents: plan.shape.parents_of(i).iter().map(|p| ids[*p]).collect(),
            ts: plan.ts[i - 1],
            author: r.author,
            bad_sig: plan.modes[i - 1] == Mode::BadSig,
            contents: r.contents,
            embeds: r.embeds,
            salt: 0,
        };
        let mut chosen = None;
        for salt in 0..SALT_CAP {
            spec.salt = salt;
            let id = w.write(&spec);
            // The id of the change with target rank r (of n) is placed in the r-th of n equal
            // bands of the id space (by first byte), so every prefix is order-consistent and the
            // search never runs into a narrow gap.
            let ok = match &plan.rank {
                None => true,
                Some(target) => id.as_bytes()[0] as usize * n / 256 == target[i - 1],
            };
            if ok && !ids.contains(&id) {
                chosen = Some((id, salt));
                break;
            }
        }
        let (id, salt) = chosen.unwrap_or_else(|| {
            rank_ok = false;
            spec.salt = 0;
            (w.write(&spec), 0)
        });
        spec.salt = salt;
        ids.push(id);
        salts.push(salt);
        specs.push(spec);
    }
    let rank = ranks(&ids[1..]);
    Built { obj: ObjectId::from(root), ids, specs, salts, rank, rank_ok }
}

impl Built {
    /// One namespace per tip of the ancestor-closed node set `keep`, in index order.
    pub fn tip_refs(&self, shape: &Shape, keep: &BTreeSet<usize>) -> Vec<(usize, Oid)> {
        shape.tips_within(keep).iter().enumerate().map(|(ns, t)| (ns, self.ids[*t])).collect()
    }
    pub fn index_of(&self, id: &Oid) -> Option<usize> {
        self.ids.iter().position(|x| x == id)
    }
}

pub fn plan_json(plan: &Plan, built: Option<&Built>) -> Value {
    let mut v = json!({
        "kind": plan.kind,
        "shape": plan.shape,
        "parents": (1..=plan.shape.n()).map(|i| plan.shape.parents_of(i)).collect::<Vec<_>>(),
        "ts": plan.ts,
        "modes": plan.modes,
        "mode_labels": plan.modes.iter().map(|m| m.label(plan.kind)).collect::<Vec<_>>(),
        "rank": plan.rank,
        "root_author": plan.root_author,
        "root_author_name": ACTORS[plan.root_author],
    });
    if let Some(b) = built {
        v["ids"] = oid_json(&b.ids);
        v["salts"] = json!(b.salts);
        v["authors"] = json!(b.specs.iter().map(|s| ACTORS[s.author]).collect::<Vec<_>>());
        v["actions"] = json!(b
            .specs
            .iter()
            .map(|s| s.contents.iter().map(|c| String::from_utf8_lossy(c).to_string()).collect::<Vec<_>>())
            .collect::<Vec<_>>());
    }
    v
}

pub fn plan_from_json(v: &Value) -> Option<Plan> {
    Some(Plan {
        kind: serde_json::from_value(v.get("kind")?.clone()).ok()?,
        shape: serde_json::from_value(v.get("shape")?.clone()).ok()?,
        ts: serde_json::from_value(v.get("ts")?.clone()).ok()?,
        modes: serde_json::from_value(v.get("modes")?.clone()).ok()?,
        rank: serde_json::from_value(v.get("rank")?.clone()).ok()?,
        root_author: v.get("root_author").and_then(Value::as_u64).map(|a| a as usize).unwrap_or(N),
    })
}

/// Split faceted outcome labels (`a=x|b=y|b=z`) into one histogram per facet.
pub fn marginals(outcomes: &BTreeMap<String, u64>) -> serde_json::Map<String, Value> {
    let mut m: BTreeMap<String, BTreeMap<String, u64>> = BTreeMap::new();
    for (label, count) in outcomes {
        for facet in label.split('|') {
            if let Some((k, v)) = facet.split_once('=') {
                *m.entry(k.to_string()).or_default().entry(v.to_string()).or_default() += count;
            }
        }
    }
    m.into_iter().map(|(k, v)| (k, json!(v))).collect()
}
