//! Shared fixture for C01 / C02: an arbitrary *serving* repository, a fetcher whose prior state was
//! produced by real honest fetches, and an in-process transport that runs the very `git
//! upload-pack` command line of `radicle-node`'s upload-pack worker.
//!
//! Included with `#[path = "../fetchfix.rs"] mod fetchfix;` from `bin/c01.rs` and `bin/c02.rs`.
//!
//! Layout of one [`Fixture`] (one identity document = one delegate set + threshold):
//!
//! * `base/<rid>` — a real `radicle::Storage` repository created with `Repository::init`; every
//!   namespace owner has two honest generations of content signed with the real `sign_refs`
//!   (`S1 → S2`), and the object database additionally holds, per owner, every hand-written
//!   `rad/sigrefs` commit of the tamper alphabet (a commit whose tree holds the blobs `refs` and
//!   `signature`, exactly what `SignedRefs::save` writes).
//! * a serving repository for one item is a fresh bare git directory that borrows `base`'s objects
//!   through `objects/info/alternates` and whose refs are written from the per-owner, per-tamper
//!   reference tables — so what the fetcher is offered is arbitrary, while the fetcher side is only
//!   ever touched by the real `radicle_fetch::{clone, pull}`.
//! * `fetcher_v1`, `fetcher_v2` — storage directories of the fetching node after a real honest
//!   clone of generation 1 and a subsequent real honest pull of generation 2 (followed by what the
//!   node's worker does after a successful fetch: move into place, `set_identity_head`,
//!   `set_head`). Items copy one of them.
#![allow(dead_code)]

use std::collections::{BTreeMap, BTreeSet, HashSet};
use std::io::{self, Read, Write};
use std::path::{Path, PathBuf};
use std::process::{Child, ChildStdin, ChildStdout, Command, Stdio};
use std::str::FromStr;

use mcx::report::machinery;
use radicle::crypto::signature::Signer as _;
use radicle::crypto::test::signer::MockSigner;
use radicle::crypto::PublicKey;
use radicle::identity::doc::{RawDoc, Visibility};
use radicle::identity::{Did, Project, RepoId};
use radicle::node::device::Device;
use radicle::node::Alias;
use radicle::storage::git::{Repository, Storage};
use radicle::storage::refs::RefsAt;
use radicle::storage::{ReadRepository, ReadStorage, SignRepository, WriteRepository};
use radicle_fetch::transport::{ConnectionStream, SignalEof};
use radicle_fetch::{Allowed, BlockList, FetchLimit, FetchResult, Handle};

/// Fixed commit time of everything the harness creates.
pub const T0: i64 = 1_514_817_556;

/// Call once at process start (before any thread exists): every commit / COB timestamp becomes a
/// constant, so all object ids are a function of the key seed only.
pub fn fix_process_env() {
    for k in ["GIT_COMMITTER_DATE", "GIT_AUTHOR_DATE", "RAD_COMMIT_TIME", "RAD_LOCAL_TIME"] {
        std::env::set_var(k, T0.to_string());
    }
}

// ------------------------------------------------------------------------------------------------
// Keys

/// Key slots.
pub const D1: usize = 0;
pub const D2: usize = 1;
pub const D3: usize = 2;
pub const D4: usize = 3;
pub const N1: usize = 4;
pub const LOCAL: usize = 5;
pub const OUTSIDER: usize = 6;
pub const OTHER: usize = 7;
pub const KEY_NAMES: [&str; 8] = ["d1", "d2", "d3", "d4", "n1", "local", "outsider", "other"];

pub struct Keys {
    pub devs: Vec<Device<MockSigner>>,
}

impl Keys {
    pub fn new(seed: u64) -> Keys {
        Keys { devs: (0..KEY_NAMES.len()).map(|k| Device::mock_from_seed([(seed as u8).wrapping_mul(37).wrapping_add(0x40 + k as u8); 32])).collect() }
    }
    pub fn pk(&self, k: usize) -> PublicKey {
        *self.devs[k].public_key()
    }
    pub fn name_of(&self, pk: &PublicKey) -> Option<&'static str> {
        (0..KEY_NAMES.len()).find(|k| self.pk(*k) == *pk).map(|k| KEY_NAMES[k])
    }
}

pub fn key_index(name: &str) -> usize {
    KEY_NAMES.iter().position(|n| *n == name).unwrap_or_else(|| machinery(&format!("unknown key name {name}")))
}

// ------------------------------------------------------------------------------------------------
// Tamper alphabet

/// What the serving repository holds for one namespace. "v1"/"v2" are the two honest generations;
/// every hand-written `rad/sigrefs` commit except `Diverged` is a child of the honest `S2`, so the
/// only thing wrong with it is the thing its name says.
#[derive(Clone, Copy, Debug, PartialEq, Eq, PartialOrd, Ord, Hash)]
pub enum Tamper {
    /// generation 2, honestly signed
    Honest,
    /// generation 2 plus a branch that `rad/sigrefs` does not list
    ExtraUnsignedRef,
    /// generation 2, `refs/heads/master` points at the generation-1 commit instead of the signed one
    RefMoved,
    /// generation 2, the signed `refs/tags/v2` does not exist in the serving refdb
    SignedRefMissing,
    /// generation 2 refs (including `rad/id`, `rad/root`) but no `rad/sigrefs`
    SigrefsMissing,
    /// child of S2 with the generation-2 refs blob, one bit of the signature flipped
    BadSignature,
    /// child of S2 with the generation-2 refs blob, signed by the key `other`
    ReKeyed,
    /// child of S2, owner signs `refs/rad/root` = identity root of a different repository
    ForeignRid,
    /// child of S2, owner signs a blob that also lists `refs/rad/sigrefs`
    ListsSigrefsItself,
    /// child of S2, owner signs (and the server holds) `refs/foo/x`
    OddCategory,
    /// generation 1 as it honestly was (behind a fetcher that holds generation 2)
    Rewound,
    /// honestly signed sibling of S2 (child of S1 with other content)
    Diverged,
    /// honestly signed root commit (no parent): a history that shares no commit with S1 / S2
    Unrelated,
    /// child of S2, owner signs `refs/heads/ghost` → an object the server does not have
    SignedObjectMissing,
    /// generation 3: honestly signed child of S2 with a new master commit
    AheadV3,
    /// generation 3: honestly signed child of S2 whose master is rolled back to the generation-1
    /// commit (an ancestor of what generation 2 signed)
    AheadRollback,
    /// no reference of this namespace exists on the server
    Absent,
}

pub const ALL_TAMPERS: [Tamper; 17] = [
    Tamper::Unrelated,
    Tamper::Honest,
    Tamper::ExtraUnsignedRef,
    Tamper::RefMoved,
    Tamper::SignedRefMissing,
    Tamper::SigrefsMissing,
    Tamper::BadSignature,
    Tamper::ReKeyed,
    Tamper::ForeignRid,
    Tamper::ListsSigrefsItself,
    Tamper::OddCategory,
    Tamper::Rewound,
    Tamper::Diverged,
    Tamper::SignedObjectMissing,
    Tamper::AheadV3,
    Tamper::AheadRollback,
    Tamper::Absent,
];

impl Tamper {
    pub fn name(&self) -> &'static str {
        match self {
            Tamper::Honest => "honest",
            Tamper::ExtraUnsignedRef => "extra-unsigned-ref",
            Tamper::RefMoved => "ref-moved-off-signed-target",
            Tamper::SignedRefMissing => "signed-ref-missing",
            Tamper::SigrefsMissing => "sigrefs-missing",
            Tamper::BadSignature => "bad-signature",
            Tamper::ReKeyed => "re-keyed",
            Tamper::ForeignRid => "foreign-rid",
            Tamper::ListsSigrefsItself => "lists-sigrefs-itself",
            Tamper::OddCategory => "odd-category",
            Tamper::Rewound => "rewound",
            Tamper::Diverged => "diverged",
            Tamper::Unrelated => "diverged-unrelated",
            Tamper::SignedObjectMissing => "signed-object-missing",
            Tamper::AheadV3 => "ahead-v3",
            Tamper::AheadRollback => "ahead-rollback",
            Tamper::Absent => "absent",
        }
    }
    pub fn parse(s: &str) -> Tamper {
        ALL_TAMPERS.iter().copied().find(|t| t.name() == s).unwrap_or_else(|| machinery(&format!("unknown tamper {s}")))
    }
}

// ------------------------------------------------------------------------------------------------
// Reference tables and snapshots

#[derive(Clone, Debug, PartialEq, Eq, PartialOrd, Ord)]
pub enum RefVal {
    Direct(git2::Oid),
    Symbolic(String),
}

/// References of one namespace, keyed by the name inside the namespace (`refs/heads/master`).
pub type NsRefs = BTreeMap<String, RefVal>;

/// All references of a repository grouped by namespace ("" = outside `refs/namespaces/`); the
/// value is the object id the reference resolves to (symbolic references are followed).
pub type Snapshot = BTreeMap<String, BTreeMap<String, String>>;

pub const SIGREFS: &str = "refs/rad/sigrefs";

pub fn split_ns(name: &str) -> (String, String) {
    match name.strip_prefix("refs/namespaces/") {
        Some(tail) => match tail.split_once('/') {
            Some((ns, rest)) => (ns.to_string(), rest.to_string()),
            None => (String::new(), name.to_string()),
        },
        None => (String::new(), name.to_string()),
    }
}

pub fn snapshot_at(git_dir: &Path) -> Snapshot {
    let repo = git2::Repository::open_bare(git_dir).unwrap_or_else(|e| machinery(&format!("snapshot: cannot open {}: {e}", git_dir.display())));
    let mut out = Snapshot::new();
    for r in repo.references().unwrap() {
        let r = r.unwrap();
        let name = r.name().unwrap().to_string();
        let target = match r.resolve() {
            Ok(d) => d.target().map(|o| o.to_string()).unwrap_or_else(|| "unresolved".into()),
            Err(_) => format!("dangling -> {}", r.symbolic_target().unwrap_or("?")),
        };
        let (ns, rest) = split_ns(&name);
        out.entry(ns).or_default().insert(rest, target);
    }
    out
}

fn ns_refs_of(repo: &git2::Repository, ns: &PublicKey) -> NsRefs {
    let mut out = NsRefs::new();
    let prefix = format!("refs/namespaces/{ns}/");
    for r in repo.references_glob(&format!("{prefix}*")).unwrap() {
        let r = r.unwrap();
        let name = r.name().unwrap().strip_prefix(&prefix).unwrap().to_string();
        let v = match r.symbolic_target() {
            Some(t) => RefVal::Symbolic(t.to_string()),
            None => RefVal::Direct(r.target().unwrap()),
        };
        out.insert(name, v);
    }
    out
}

/// `name → oid` view of a namespace table (symbolic refs resolved inside the same table / base
/// repository), without `rad/sigrefs`: the content an honest owner signs.
fn signable(repo: &git2::Repository, ns: &PublicKey, refs: &NsRefs) -> BTreeMap<String, git2::Oid> {
    let mut out = BTreeMap::new();
    for (name, v) in refs {
        if name == SIGREFS {
            continue;
        }
        let oid = match v {
            RefVal::Direct(o) => *o,
            RefVal::Symbolic(t) => {
                let inner = t.strip_prefix(&format!("refs/namespaces/{ns}/")).unwrap_or(t);
                match refs.get(inner) {
                    Some(RefVal::Direct(o)) => *o,
                    _ => repo.refname_to_id(t).unwrap(),
                }
            }
        };
        out.insert(name.clone(), oid);
    }
    out
}

/// Canonical text of a signed-refs blob: `<oid> SP <name> LF` in name order (plain re-encoder).
pub fn canonical_text(refs: &BTreeMap<String, git2::Oid>) -> Vec<u8> {
    let mut s = String::new();
    for (name, oid) in refs {
        s.push_str(&oid.to_string());
        s.push(' ');
        s.push_str(name);
        s.push('\n');
    }
    s.into_bytes()
}

/// Plain parser of a signed-refs blob.
pub fn parse_refs_blob(bytes: &[u8]) -> Result<BTreeMap<String, git2::Oid>, String> {
    let text = std::str::from_utf8(bytes).map_err(|e| e.to_string())?;
    let mut out = BTreeMap::new();
    for line in text.lines() {
        let (oid, name) = line.split_once(' ').ok_or_else(|| format!("bad line {line:?}"))?;
        let oid = git2::Oid::from_str(oid).map_err(|e| e.to_string())?;
        if oid.is_zero() {
            continue;
        }
        out.insert(name.to_string(), oid);
    }
    Ok(out)
}

fn sig_time() -> git2::Signature<'static> {
    git2::Signature::new("chk", "chk@verif.invalid", &git2::Time::new(T0, 0)).unwrap()
}

fn plain_commit(repo: &git2::Repository, msg: &str, parents: &[git2::Oid]) -> git2::Oid {
    let tree = repo.treebuilder(None).unwrap().write().unwrap();
    let tree = repo.find_tree(tree).unwrap();
    let parents: Vec<git2::Commit> = parents.iter().map(|p| repo.find_commit(*p).unwrap()).collect();
    let sig = sig_time();
    repo.commit(None, &sig, &sig, msg, &tree, &parents.iter().collect::<Vec<_>>()).unwrap()
}

/// A hand-written `rad/sigrefs` commit (same shape as `SignedRefs::save`).
fn sigrefs_commit(repo: &git2::Repository, owner: &PublicKey, refs_text: &[u8], signature: &[u8], parent: Option<git2::Oid>) -> git2::Oid {
    let refs_blob = repo.blob(refs_text).unwrap();
    let sig_blob = repo.blob(signature).unwrap();
    let mut tb = repo.treebuilder(None).unwrap();
    tb.insert("refs", refs_blob, 0o100_644).unwrap();
    tb.insert("signature", sig_blob, 0o100_644).unwrap();
    let tree = repo.find_tree(tb.write().unwrap()).unwrap();
    let author = git2::Signature::new("radicle", owner.to_string().as_str(), &git2::Time::new(T0, 0)).unwrap();
    let parents: Vec<git2::Commit> = parent.iter().map(|p| repo.find_commit(*p).unwrap()).collect();
    repo.commit(None, &author, &author, "Update signed refs\n", &tree, &parents.iter().collect::<Vec<_>>()).unwrap()
}

// ------------------------------------------------------------------------------------------------
// Fixture

#[derive(Clone, Debug, PartialEq, Eq, PartialOrd, Ord, Hash)]
pub struct FixCfg {
    /// remote delegates (key slots), in document order; the first one creates the repository
    pub delegates: Vec<usize>,
    pub threshold: usize,
    /// non-delegate namespace owners
    pub others: Vec<usize>,
    /// the fetching node is itself a delegate of the identity (listed last in the document)
    pub local_is_delegate: bool,
}

impl FixCfg {
    pub fn describe(&self) -> serde_json::Value {
        serde_json::json!({
            "delegates": self.delegates.iter().map(|k| KEY_NAMES[*k]).collect::<Vec<_>>(),
            "threshold": self.threshold,
            "non_delegate_owners": self.others.iter().map(|k| KEY_NAMES[*k]).collect::<Vec<_>>(),
            "local_is_delegate": self.local_is_delegate,
        })
    }
    pub fn from_json(v: &serde_json::Value) -> FixCfg {
        let names = |k: &str| -> Vec<usize> { v[k].as_array().unwrap_or_else(|| machinery(&format!("replay: cfg.{k}"))).iter().map(|x| key_index(x.as_str().unwrap_or(""))).collect() };
        FixCfg {
            delegates: names("delegates"),
            threshold: v["threshold"].as_u64().unwrap_or_else(|| machinery("replay: cfg.threshold")) as usize,
            others: names("non_delegate_owners"),
            local_is_delegate: v["local_is_delegate"].as_bool().unwrap_or(false),
        }
    }
}

pub struct Owner {
    pub slot: usize,
    pub key: PublicKey,
    pub is_delegate: bool,
    /// honest sigrefs commits of generation 1 and 2
    pub s1: git2::Oid,
    pub s2: git2::Oid,
    /// what the server holds for this namespace under each tamper
    pub offered: BTreeMap<Tamper, NsRefs>,
    /// an object id that exists nowhere
    pub nowhere: git2::Oid,
}

impl Owner {
    pub fn name(&self) -> &'static str {
        KEY_NAMES[self.slot]
    }
    /// `rad/sigrefs` tip the server holds under `t` (what an honest announcement would name).
    pub fn offered_tip(&self, t: Tamper) -> Option<git2::Oid> {
        match self.offered[&t].get(SIGREFS) {
            Some(RefVal::Direct(o)) => Some(*o),
            _ => None,
        }
    }
}

pub struct Fixture {
    pub cfg: FixCfg,
    pub keys: Keys,
    pub root: tempfile::TempDir,
    pub rid: RepoId,
    /// root commit of the identity of this repository
    pub identity_root: git2::Oid,
    pub identity_head: git2::Oid,
    /// identity root of the unrelated second repository
    pub foreign_root: git2::Oid,
    pub base_git: PathBuf,
    /// namespace owners on the server: remote delegates, then others, then (if a delegate) local
    pub owners: Vec<Owner>,
    pub fetcher_v1: PathBuf,
    pub fetcher_v2: PathBuf,
}

fn user(alias: &str, key: PublicKey) -> radicle::git::UserInfo {
    radicle::git::UserInfo { alias: Alias::new(alias), key }
}

pub fn copy_dir(from: &Path, to: &Path, skip_top: &[&str]) {
    std::fs::create_dir_all(to).unwrap();
    for e in std::fs::read_dir(from).unwrap_or_else(|e| machinery(&format!("copy_dir {}: {e}", from.display()))) {
        let e = e.unwrap();
        let name = e.file_name();
        if skip_top.iter().any(|s| name.to_str() == Some(*s)) {
            continue;
        }
        let ft = e.file_type().unwrap();
        if ft.is_dir() {
            copy_dir(&e.path(), &to.join(&name), &[]);
        } else if ft.is_file() {
            std::fs::copy(e.path(), to.join(&name)).unwrap();
        }
    }
}

impl Fixture {
    pub fn owner(&self, slot: usize) -> &Owner {
        self.owners.iter().find(|o| o.slot == slot).unwrap_or_else(|| machinery(&format!("fixture has no owner {}", KEY_NAMES[slot])))
    }
    pub fn owner_by_ns(&self, ns: &str) -> Option<&Owner> {
        self.owners.iter().find(|o| o.key.to_string() == ns)
    }
    pub fn local(&self) -> PublicKey {
        self.keys.pk(LOCAL)
    }
    /// Delegates of the identity document as public keys (including local if it is one).
    pub fn doc_delegates(&self) -> Vec<PublicKey> {
        let mut v: Vec<PublicKey> = self.cfg.delegates.iter().map(|k| self.keys.pk(*k)).collect();
        if self.cfg.local_is_delegate {
            v.push(self.local());
        }
        v
    }

    pub fn build(cfg: &FixCfg, seed: u64) -> Fixture {
        let keys = Keys::new(seed);
        let root = tempfile::Builder::new().prefix("fetchfix-").tempdir().unwrap();
        let storage = Storage::open(root.path().join("base"), user("base", keys.pk(OUTSIDER))).unwrap();
        let author = cfg.delegates[0];
        let mut dids: Vec<Did> = cfg.delegates.iter().map(|k| Did::from(keys.pk(*k))).collect();
        if cfg.local_is_delegate {
            dids.push(Did::from(keys.pk(LOCAL)));
        }
        let project = Project::new("fetchfix".try_into().unwrap(), String::new(), radicle::git::refname!("master")).unwrap();
        let doc = RawDoc::new(project, dids, cfg.threshold, Visibility::Public).verified().unwrap_or_else(|e| machinery(&format!("fixture document: {e}")));
        let (repo, identity) = Repository::init(&doc, &storage, &keys.devs[author]).unwrap();
        let rid = repo.id;
        repo.set_identity_head_to(identity).unwrap();
        let identity_root: git2::Oid = *identity;
        let raw = repo.raw();

        // An unrelated repository whose identity objects are also present in the serving odb.
        let project2 = Project::new("elsewhere".try_into().unwrap(), String::new(), radicle::git::refname!("master")).unwrap();
        let doc2 = RawDoc::new(project2, vec![Did::from(keys.pk(OTHER))], 1, Visibility::Public).verified().unwrap();
        let (repo2, identity2) = Repository::init(&doc2, &storage, &keys.devs[OTHER]).unwrap();
        {
            let from = repo2.raw().odb().unwrap();
            let to = raw.odb().unwrap();
            from.foreach(|oid| {
                let obj = from.read(*oid).unwrap();
                to.write(obj.kind(), obj.data()).unwrap();
                true
            })
            .unwrap();
        }
        let foreign_root: git2::Oid = *identity2;
        if repo2.id == rid {
            machinery("fixture: the second repository has the same id");
        }

        let mut slots: Vec<(usize, bool)> = cfg.delegates.iter().map(|k| (*k, true)).collect();
        slots.extend(cfg.others.iter().map(|k| (*k, false)));
        if cfg.local_is_delegate {
            slots.push((LOCAL, true));
        }

        let mut owners = vec![];
        for (slot, is_delegate) in slots {
            let dev = &keys.devs[slot];
            let pk = keys.pk(slot);
            let ns = format!("refs/namespaces/{pk}");
            let tag = KEY_NAMES[slot];
            let c1 = plain_commit(raw, &format!("{tag} c1"), &[]);
            let c2 = plain_commit(raw, &format!("{tag} c2"), &[c1]);
            let c2alt = plain_commit(raw, &format!("{tag} c2 alternative"), &[c1]);
            let c3 = plain_commit(raw, &format!("{tag} c3"), &[c2]);
            if slot != author {
                raw.reference(&format!("{ns}/refs/rad/id"), identity_root, true, "chk").unwrap();
            }
            repo.set_remote_identity_root_to(&pk, identity).unwrap();
            // generation 1
            raw.reference(&format!("{ns}/refs/heads/master"), c1, true, "chk").unwrap();
            raw.reference(&format!("{ns}/refs/heads/old"), c1, true, "chk").unwrap();
            raw.reference(&format!("{ns}/refs/heads/old2"), c1, true, "chk").unwrap();
            repo.sign_refs(dev).unwrap();
            let v1 = ns_refs_of(raw, &pk);
            // generation 2: one ref moves, two disappear, one appears
            raw.reference(&format!("{ns}/refs/heads/master"), c2, true, "chk").unwrap();
            raw.find_reference(&format!("{ns}/refs/heads/old")).unwrap().delete().unwrap();
            raw.find_reference(&format!("{ns}/refs/heads/old2")).unwrap().delete().unwrap();
            raw.reference(&format!("{ns}/refs/tags/v2"), c2, true, "chk").unwrap();
            repo.sign_refs(dev).unwrap();
            let v2 = ns_refs_of(raw, &pk);
            let get = |m: &NsRefs| match m.get(SIGREFS) {
                Some(RefVal::Direct(o)) => *o,
                _ => machinery("fixture: sign_refs left no rad/sigrefs"),
            };
            let (s1, s2) = (get(&v1), get(&v2));
            if s1 == s2 || raw.find_commit(s2).unwrap().parent_id(0).ok() != Some(s1) {
                machinery("fixture: S2 is not a child of S1");
            }
            let sign = |d: &Device<MockSigner>, text: &[u8]| -> Vec<u8> {
                let s: radicle::crypto::Signature = d.try_sign(text).unwrap();
                s.as_ref().to_vec()
            };
            let nowhere = git2::Oid::hash_object(git2::ObjectType::Commit, format!("nowhere {tag}").as_bytes()).unwrap();

            let mut offered: BTreeMap<Tamper, NsRefs> = BTreeMap::new();
            let with = |base: &NsRefs, edits: &[(&str, Option<git2::Oid>)]| -> NsRefs {
                let mut m = base.clone();
                for (name, v) in edits {
                    match v {
                        Some(o) => {
                            m.insert(name.to_string(), RefVal::Direct(*o));
                        }
                        None => {
                            m.remove(*name);
                        }
                    }
                }
                m
            };
            // child of `parent` signing `content` (a full table), signed by `signer`, optional bit flip
            let handmade = |content: &NsRefs, extra_signed: &[(&str, git2::Oid)], signer: &Device<MockSigner>, flip: bool, parent: git2::Oid| -> git2::Oid {
                let mut signed = signable(raw, &pk, content);
                for (n, o) in extra_signed {
                    signed.insert(n.to_string(), *o);
                }
                let text = canonical_text(&signed);
                let mut sig = sign(signer, &text);
                if flip {
                    sig[0] ^= 0x01;
                }
                sigrefs_commit(raw, &pk, &text, &sig, Some(parent))
            };
            offered.insert(Tamper::Honest, v2.clone());
            offered.insert(Tamper::ExtraUnsignedRef, with(&v2, &[("refs/heads/extra", Some(c2alt))]));
            offered.insert(Tamper::RefMoved, with(&v2, &[("refs/heads/master", Some(c1))]));
            offered.insert(Tamper::SignedRefMissing, with(&v2, &[("refs/tags/v2", None)]));
            offered.insert(Tamper::SigrefsMissing, with(&v2, &[(SIGREFS, None)]));
            let bad = handmade(&v2, &[], dev, true, s2);
            offered.insert(Tamper::BadSignature, with(&v2, &[(SIGREFS, Some(bad))]));
            let rekeyed = handmade(&v2, &[], &keys.devs[OTHER], false, s2);
            offered.insert(Tamper::ReKeyed, with(&v2, &[(SIGREFS, Some(rekeyed))]));
            let foreign_tbl = with(&v2, &[("refs/rad/root", Some(foreign_root))]);
            let foreign = handmade(&foreign_tbl, &[], dev, false, s2);
            offered.insert(Tamper::ForeignRid, with(&foreign_tbl, &[(SIGREFS, Some(foreign))]));
            let lists = handmade(&v2, &[(SIGREFS, s1)], dev, false, s2);
            offered.insert(Tamper::ListsSigrefsItself, with(&v2, &[(SIGREFS, Some(lists))]));
            let odd_tbl = with(&v2, &[("refs/foo/x", Some(c2))]);
            let odd = handmade(&odd_tbl, &[], dev, false, s2);
            offered.insert(Tamper::OddCategory, with(&odd_tbl, &[(SIGREFS, Some(odd))]));
            offered.insert(Tamper::Rewound, v1.clone());
            let div_tbl = with(&v1, &[("refs/heads/master", Some(c2alt))]);
            let diverged = handmade(&div_tbl, &[], dev, false, s1);
            offered.insert(Tamper::Diverged, with(&div_tbl, &[(SIGREFS, Some(diverged))]));
            let unrelated = {
                let text = canonical_text(&signable(raw, &pk, &div_tbl));
                let sig = sign(dev, &text);
                sigrefs_commit(raw, &pk, &text, &sig, None)
            };
            offered.insert(Tamper::Unrelated, with(&div_tbl, &[(SIGREFS, Some(unrelated))]));
            let ghost = handmade(&v2, &[("refs/heads/ghost", nowhere)], dev, false, s2);
            offered.insert(Tamper::SignedObjectMissing, with(&v2, &[(SIGREFS, Some(ghost))]));
            let v3_tbl = with(&v2, &[("refs/heads/master", Some(c3))]);
            let v3 = handmade(&v3_tbl, &[], dev, false, s2);
            offered.insert(Tamper::AheadV3, with(&v3_tbl, &[(SIGREFS, Some(v3))]));
            let back_tbl = with(&v2, &[("refs/heads/master", Some(c1))]);
            let back = handmade(&back_tbl, &[], dev, false, s2);
            offered.insert(Tamper::AheadRollback, with(&back_tbl, &[(SIGREFS, Some(back))]));
            offered.insert(Tamper::Absent, NsRefs::new());

            owners.push(Owner { slot, key: pk, is_delegate, s1, s2, offered, nowhere });
        }
        let base_git = repo.path().to_path_buf();
        drop(repo2);
        drop(repo);

        let fx = Fixture {
            cfg: cfg.clone(),
            keys,
            rid,
            identity_root,
            identity_head: identity_root,
            foreign_root,
            base_git,
            owners,
            fetcher_v1: root.path().join("fetcher-v1"),
            fetcher_v2: root.path().join("fetcher-v2"),
            root,
        };
        fx.build_fetcher_states();
        fx
    }

    /// Write a serving repository: `dir/<rid>` with the given tamper per owner (owners that are
    /// not named are honest). Returns the git directory.
    pub fn serve(&self, dir: &Path, tampers: &BTreeMap<usize, Tamper>) -> PathBuf {
        let git_dir = dir.join(self.rid.canonical());
        std::fs::create_dir_all(git_dir.join("objects/info")).unwrap();
        std::fs::create_dir_all(git_dir.join("refs")).unwrap();
        for f in ["HEAD", "config"] {
            std::fs::copy(self.base_git.join(f), git_dir.join(f)).unwrap_or_else(|e| machinery(&format!("serve: copy {f}: {e}")));
        }
        // The serving repository's own configuration: single-threaded pack-objects (the packs have a
        // dozen objects; 16 delta threads per upload-pack request only cost process start-up time).
        {
            let mut cfg = std::fs::read_to_string(git_dir.join("config")).unwrap_or_default();
            cfg.push_str("[pack]\n\tthreads = 1\n");
            std::fs::write(git_dir.join("config"), cfg).unwrap();
        }
        std::fs::write(git_dir.join("objects/info/alternates"), format!("{}\n", self.base_git.join("objects").display())).unwrap();
        let write_ref = |name: &str, v: &RefVal| {
            let p = git_dir.join(name);
            std::fs::create_dir_all(p.parent().unwrap()).unwrap();
            let text = match v {
                RefVal::Direct(o) => format!("{o}\n"),
                RefVal::Symbolic(t) => format!("ref: {t}\n"),
            };
            std::fs::write(p, text).unwrap();
        };
        write_ref("refs/rad/id", &RefVal::Direct(self.identity_head));
        for o in &self.owners {
            let t = tampers.get(&o.slot).copied().unwrap_or(Tamper::Honest);
            for (name, v) in &o.offered[&t] {
                write_ref(&format!("refs/namespaces/{}/{}", o.key, name), v);
            }
        }
        git_dir
    }

    fn build_fetcher_states(&self) {
        let scratch = self.root.path().join("prior");
        // honest generation 1: every owner as it was at v1
        let all_v1: BTreeMap<usize, Tamper> = self.owners.iter().map(|o| (o.slot, Tamper::Rewound)).collect();
        let srv1 = self.serve(&scratch.join("srv1"), &all_v1);
        let srv2 = self.serve(&scratch.join("srv2"), &BTreeMap::new());
        let serving = self.keys.pk(self.cfg.delegates[0]);

        let run = fetch(self, &FetchSpec { mode: Mode::Clone, prior: None, refs_at: None, allowed: Allowed::All, serving, server_git: &srv1, fetcher_root: &self.fetcher_v1, keep_discarded_clone: false });
        if !matches!(run.result, Outcome::Success { .. }) {
            machinery(&format!("fixture: honest clone of generation 1 did not succeed: {:?}", run.result));
        }
        finalize_like_worker(self, &self.fetcher_v1, run.clone_tmp);
        copy_dir(&self.fetcher_v1, &self.fetcher_v2, &[]);
        let run = fetch(self, &FetchSpec { mode: Mode::PullV1, prior: Some(&self.fetcher_v2), refs_at: None, allowed: Allowed::All, serving, server_git: &srv2, fetcher_root: &self.fetcher_v2, keep_discarded_clone: false });
        if !matches!(run.result, Outcome::Success { .. }) {
            machinery(&format!("fixture: honest pull of generation 2 did not succeed: {:?}", run.result));
        }
        finalize_like_worker(self, &self.fetcher_v2, None);
        // The prior states really are what their names say.
        for (dir, gen) in [(&self.fetcher_v1, 1), (&self.fetcher_v2, 2)] {
            let snap = snapshot_at(&dir.join(self.rid.canonical()));
            for o in &self.owners {
                // a pull never touches the local node's own namespace
                let want = if gen == 1 || o.slot == LOCAL { o.s1 } else { o.s2 };
                let got = snap.get(&o.key.to_string()).and_then(|m| m.get(SIGREFS)).cloned();
                if got != Some(want.to_string()) {
                    machinery(&format!("fixture: fetcher state v{gen} holds {got:?} for {} instead of {want}", o.name()));
                }
            }
        }
        let _ = std::fs::remove_dir_all(&scratch);
    }
}

/// What the node's worker does after a successful fetch (`worker/fetch.rs`): a clone is moved into
/// place, then `set_identity_head` and `set_head`.
fn finalize_like_worker(fx: &Fixture, fetcher_root: &Path, clone_tmp: Option<tempfile::TempDir>) {
    let storage = Storage::open(fetcher_root, user("local", fx.local())).unwrap();
    if let Some(tmp) = clone_tmp {
        std::fs::rename(tmp.path(), storage.path_of(&fx.rid)).unwrap_or_else(|e| machinery(&format!("fixture: mv clone: {e}")));
        let _ = tmp.close();
    }
    let repo = storage.repository(fx.rid).unwrap();
    repo.set_identity_head().unwrap_or_else(|e| machinery(&format!("fixture: set_identity_head: {e}")));
    let _ = repo.set_head();
}

// ------------------------------------------------------------------------------------------------
// Transport

/// The serving side of one fetch: `git upload-pack` exactly as `worker::upload_pack` spawns it.
pub struct UploadPack {
    child: Child,
    r: ChildStdout,
    w: PackWriter,
}

pub struct PackWriter {
    stdin: Option<ChildStdin>,
    /// bytes of the git-daemon request line seen so far (the worker strips this line)
    header: Vec<u8>,
    stripped: bool,
    pub request_line: Vec<u8>,
}

impl UploadPack {
    pub fn spawn(git_dir: &Path) -> io::Result<UploadPack> {
        let mut cmd = Command::new("git");
        cmd.current_dir(git_dir)
            .env_clear()
            .envs(std::env::vars().filter(|(k, _)| k == "PATH"))
            .env("GIT_PROTOCOL", "version=2")
            .args(["-c", "uploadpack.allowAnySha1InWant=true", "-c", "uploadpack.allowRefInWant=true", "-c", "lsrefs.unborn=ignore", "upload-pack", "--strict", "."])
            .stdin(Stdio::piped())
            .stdout(Stdio::piped())
            .stderr(Stdio::null());
        let mut child = cmd.spawn()?;
        let stdin = child.stdin.take().unwrap();
        let r = child.stdout.take().unwrap();
        Ok(UploadPack { child, r, w: PackWriter { stdin: Some(stdin), header: vec![], stripped: false, request_line: vec![] } })
    }
}

impl Drop for UploadPack {
    fn drop(&mut self) {
        self.w.stdin.take();
        let _ = self.child.kill();
        let _ = self.child.wait();
    }
}

impl Write for PackWriter {
    fn write(&mut self, buf: &[u8]) -> io::Result<usize> {
        let Some(stdin) = self.stdin.as_mut() else {
            return Err(io::Error::new(io::ErrorKind::BrokenPipe, "upload-pack stdin closed"));
        };
        if self.stripped {
            return stdin.write(buf);
        }
        self.header.extend_from_slice(buf);
        if self.header.len() >= 4 {
            let len = std::str::from_utf8(&self.header[..4]).ok().and_then(|s| usize::from_str_radix(s, 16).ok()).filter(|l| *l >= 4).ok_or_else(|| io::Error::new(io::ErrorKind::InvalidInput, "bad request pkt-line"))?;
            if self.header.len() >= len {
                let rest = self.header.split_off(len);
                self.request_line = std::mem::take(&mut self.header);
                self.stripped = true;
                if !rest.is_empty() {
                    stdin.write_all(&rest)?;
                }
            }
        }
        Ok(buf.len())
    }
    fn flush(&mut self) -> io::Result<()> {
        match self.stdin.as_mut() {
            Some(s) => s.flush(),
            None => Ok(()),
        }
    }
}

impl SignalEof for PackWriter {
    type Error = io::Error;
    fn eof(&mut self) -> Result<(), io::Error> {
        self.stdin.take();
        Ok(())
    }
}

impl ConnectionStream for UploadPack {
    type Read = ChildStdout;
    type Write = PackWriter;
    type Error = io::Error;
    fn open(&mut self) -> Result<(&mut ChildStdout, &mut PackWriter), io::Error> {
        Ok((&mut self.r, &mut self.w))
    }
}

// keep `Read` in scope for users that want to drain
#[allow(unused)]
fn _read_marker(r: &mut ChildStdout) -> io::Result<usize> {
    r.read(&mut [])
}

// ------------------------------------------------------------------------------------------------
// One fetch

#[derive(Clone, Copy, Debug, PartialEq, Eq, PartialOrd, Ord, Hash)]
pub enum Mode {
    Clone,
    PullV1,
    PullV2,
}

impl Mode {
    pub fn name(&self) -> &'static str {
        match self {
            Mode::Clone => "clone",
            Mode::PullV1 => "pull-from-v1",
            Mode::PullV2 => "pull-from-v2",
        }
    }
    pub fn parse(s: &str) -> Mode {
        match s {
            "clone" => Mode::Clone,
            "pull-from-v1" => Mode::PullV1,
            "pull-from-v2" => Mode::PullV2,
            o => machinery(&format!("unknown mode {o}")),
        }
    }
}

pub struct FetchSpec<'a> {
    pub mode: Mode,
    /// storage directory to copy the fetcher's prior state from (pull modes); `None` when
    /// `fetcher_root` already holds it
    pub prior: Option<&'a Path>,
    pub refs_at: Option<Vec<RefsAt>>,
    pub allowed: Allowed,
    pub serving: PublicKey,
    pub server_git: &'a Path,
    /// storage directory of the fetching node for this fetch
    pub fetcher_root: &'a Path,
    pub keep_discarded_clone: bool,
}

#[derive(Debug, Clone)]
pub enum Outcome {
    Success { updated: usize, rejected: usize, remotes: BTreeSet<String>, validations: Vec<String> },
    Failed { threshold: usize, delegates: BTreeSet<String>, validations: Vec<String> },
    Err { variant: String, text: String },
}

impl Outcome {
    pub fn label(&self) -> String {
        match self {
            Outcome::Success { rejected, validations, .. } => format!("success{}{}", if *rejected > 0 { "+rejected" } else { "" }, if validations.is_empty() { "" } else { "+validations" }),
            Outcome::Failed { .. } => "failed".into(),
            Outcome::Err { variant, .. } => format!("err:{variant}"),
        }
    }
    pub fn is_success(&self) -> bool {
        matches!(self, Outcome::Success { .. })
    }
}

pub struct FetchRun {
    pub result: Outcome,
    /// refs of the repository the fetch wrote to, before and after. For a clone that returned
    /// `Err` the node's worker drops the temporary repository, so `post` is empty then and
    /// `discarded` holds what the dropped repository contained.
    pub pre: Snapshot,
    pub post: Snapshot,
    pub discarded: Option<Snapshot>,
    pub git_dir: PathBuf,
    pub clone_tmp: Option<tempfile::TempDir>,
}

fn err_variant(e: &radicle_fetch::Error) -> String {
    fn head(s: String) -> String {
        s.chars().take_while(|c| c.is_ascii_alphanumeric()).collect()
    }
    match e {
        radicle_fetch::Error::Protocol(p) => {
            let d = format!("{p:?}");
            let outer = head(d.clone());
            // one more level for the wrappers
            let inner = d[outer.len()..].trim_start_matches(['(', '{', ' ']).to_string();
            let inner = head(inner);
            if inner.is_empty() || outer == "Diverged" {
                outer
            } else {
                format!("{outer}.{inner}")
            }
        }
        other => head(format!("{other:?}")),
    }
}

/// Run the real `radicle_fetch::clone` / `pull`.
pub fn fetch(fx: &Fixture, spec: &FetchSpec) -> FetchRun {
    let t0 = std::time::Instant::now();
    let r = fetch_inner(fx, spec);
    if std::env::var_os("FETCHFIX_TIMING").is_some() {
        eprintln!("fetchfix: {} took {:.1} ms -> {}", spec.mode.name(), t0.elapsed().as_secs_f64() * 1e3, r.result.label());
    }
    r
}

fn fetch_inner(fx: &Fixture, spec: &FetchSpec) -> FetchRun {
    if let Some(prior) = spec.prior {
        if prior != spec.fetcher_root {
            copy_dir(prior, spec.fetcher_root, &[]);
        }
    }
    let storage = Storage::open(spec.fetcher_root, user("local", fx.local())).unwrap_or_else(|e| machinery(&format!("fetcher storage: {e}")));
    let stream = UploadPack::spawn(spec.server_git).unwrap_or_else(|e| machinery(&format!("cannot spawn git upload-pack: {e}")));
    let blocked = BlockList::from_iter(std::iter::empty::<PublicKey>());
    match spec.mode {
        Mode::Clone => {
            let (repo, tmp) = storage.lock_repository(fx.rid).unwrap_or_else(|e| machinery(&format!("lock_repository: {e}")));
            let git_dir = repo.path().to_path_buf();
            let mut handle = Handle::new(fx.local(), repo, spec.allowed.clone(), blocked, stream).unwrap_or_else(|e| machinery(&format!("Handle::new: {e}")));
            let res = radicle_fetch::clone(&mut handle, FetchLimit::default(), spec.serving);
            drop(handle);
            let result = outcome_of(fx, res);
            let after = snapshot_at(&git_dir);
            let (post, discarded) = if matches!(result, Outcome::Err { .. }) { (Snapshot::new(), Some(after)) } else { (after, None) };
            FetchRun { result, pre: Snapshot::new(), post, discarded, git_dir, clone_tmp: Some(tmp) }
        }
        Mode::PullV1 | Mode::PullV2 => {
            let repo = storage.repository(fx.rid).unwrap_or_else(|e| machinery(&format!("fetcher repository: {e}")));
            let git_dir = repo.path().to_path_buf();
            let pre = snapshot_at(&git_dir);
            let mut handle = Handle::new(fx.local(), repo, spec.allowed.clone(), blocked, stream).unwrap_or_else(|e| machinery(&format!("Handle::new: {e}")));
            let res = radicle_fetch::pull(&mut handle, FetchLimit::default(), spec.serving, spec.refs_at.clone());
            drop(handle);
            let result = outcome_of(fx, res);
            let post = snapshot_at(&git_dir);
            FetchRun { result, pre, post, discarded: None, git_dir, clone_tmp: None }
        }
    }
}

fn outcome_of(fx: &Fixture, res: Result<FetchResult, radicle_fetch::Error>) -> Outcome {
    let nm = |k: &PublicKey| fx.keys.name_of(k).map(str::to_string).unwrap_or_else(|| k.to_string());
    match res {
        Ok(FetchResult::Success { applied, remotes, validations }) => Outcome::Success {
            updated: applied.updated.iter().filter(|u| !matches!(u, radicle::storage::RefUpdate::Skipped { .. })).count(),
            rejected: applied.rejected.len(),
            remotes: remotes.iter().map(nm).collect(),
            validations: validations.iter().map(|v| v.to_string()).collect(),
        },
        Ok(FetchResult::Failed { threshold, delegates, validations }) => Outcome::Failed { threshold, delegates: delegates.iter().map(nm).collect(), validations: validations.iter().map(|v| v.to_string()).collect() },
        Err(e) => {
            let mut text = e.to_string();
            let mut src: Option<&dyn std::error::Error> = std::error::Error::source(&e);
            while let Some(s) = src {
                text.push_str(" <- ");
                text.push_str(&s.to_string());
                src = s.source();
            }
            Outcome::Err { variant: err_variant(&e), text }
        }
    }
}

pub fn followed(keys: &[PublicKey]) -> Allowed {
    Allowed::Followed { remotes: keys.iter().copied().collect::<HashSet<_>>() }
}

pub fn oid_of(s: &str) -> git2::Oid {
    git2::Oid::from_str(s).unwrap_or_else(|e| machinery(&format!("bad oid {s}: {e}")))
}

pub fn pk_of(s: &str) -> Option<PublicKey> {
    PublicKey::from_str(s).ok()
}
