//! Engine A — explicit-state breadth-first search over event histories of real objects.
//!
//! A state *is* the event history that reaches it. Objects that cannot be cloned (a `Service`
//! with sqlite handles, git repositories) are rebuilt from scratch and the history is replayed;
//! objects that can be cloned implement [`System::fork`]. Whenever a stored history is replayed
//! the canonical key of the state it reaches must equal the key stored when the state was first
//! discovered — a divergence is a machinery error (exit 2), which is the per-run proof that the
//! harness owns the nondeterminism.
//!
//! Bounds: depth `D` (number of events) and a deviation budget `K` (events for which
//! [`System::is_deviation`] holds). A state is re-expanded when it is reached again with fewer
//! deviations spent (it then has more futures); breadth-first order guarantees that the first
//! visit is at the smallest depth. Level merging is deterministic (sorted by key, deviations,
//! history), so state and transition counts do not depend on thread timing.

use crate::panics;
use crate::report::{machinery, Violation, Violations};
use serde::{de::DeserializeOwned, Serialize};
use serde_json::{json, Map, Value};
use std::collections::{BTreeMap, HashMap};
use std::sync::atomic::{AtomicUsize, Ordering};
use std::sync::Mutex;
use std::time::{Duration, Instant};

#[derive(Default)]
pub struct StepOut {
    pub violations: Vec<Violation>,
    /// Small-cardinality label of what the implementation did (observation class).
    pub outcome: String,
    /// The state after this step must not be expanded (e.g. the object is poisoned).
    pub dead: bool,
}

impl StepOut {
    pub fn ok(outcome: impl Into<String>) -> Self {
        StepOut { violations: vec![], outcome: outcome.into(), dead: false }
    }
}

pub trait System: Sized {
    type Ev: Clone + Ord + Serialize + DeserializeOwned + Send + Sync + std::fmt::Debug;

    /// Finite menu of events enabled in the current state.
    fn enabled(&self) -> Vec<Self::Ev>;
    /// Is this event a departure from the default environment (forged, stale, late, backwards…)?
    fn is_deviation(&self, _ev: &Self::Ev) -> bool {
        false
    }
    /// Apply the event to the real object(s), update the reference model, evaluate invariants.
    fn step(&mut self, ev: &Self::Ev) -> StepOut;
    /// Canonical key of (implementation-observable state, model state).
    fn canon(&self) -> Vec<u8>;
    /// Cheap copy, when the real object supports it.
    fn fork(&self) -> Option<Self> {
        None
    }
    /// Convert a panic of the code under test during `step` into a violation. Default: every
    /// panic is a violation with the panic site as fingerprint.
    fn on_panic(id: &str, c: &panics::Caught, _ev: &Self::Ev) -> Option<Violation> {
        Some(Violation::new(format!("{id}/panic@{}", c.site()), format!("panic: {} ({}:{})", c.message, c.file, c.line), Value::Null))
    }
}

pub struct Bounds {
    pub depth: usize,
    pub devs: usize,
    /// Wall-clock cap; when hit, the search stops at a level boundary and reports the completed
    /// depth (the run is then not labelled exhaustive).
    pub wall: Duration,
    /// Cap on the number of states; same reporting rule.
    pub max_states: usize,
}

impl Bounds {
    pub fn new(depth: usize, devs: usize) -> Self {
        Bounds { depth, devs, wall: Duration::from_secs(3600), max_states: 20_000_000 }
    }
    pub fn wall_secs(mut self, s: u64) -> Self {
        self.wall = Duration::from_secs(s);
        self
    }
}

pub struct Result_<E> {
    pub states: u64,
    pub transitions: u64,
    pub paths_executed: u64,
    pub events_executed: u64,
    pub completed_depth: usize,
    pub requested_depth: usize,
    pub devs: usize,
    pub exhaustive: bool,
    pub frontier_sizes: Vec<usize>,
    pub outcomes: BTreeMap<String, u64>,
    pub violations: Violations,
    pub samples: Vec<Vec<E>>,
    pub reexpanded: u64,
    pub self_loops: u64,
    /// (expanded, total) nodes of the level that was abandoned when the wall cap was hit.
    pub partial_level_nodes: Option<(usize, usize)>,
}

impl<E: Serialize> Result_<E> {
    pub fn coverage(&self, rule: &str) -> Map<String, Value> {
        let mut m = Map::new();
        m.insert("states".into(), json!(self.states));
        m.insert("transitions".into(), json!(self.transitions));
        m.insert("traces_validated_against_impl".into(), json!(self.paths_executed));
        m.insert("events_executed_on_impl".into(), json!(self.events_executed));
        m.insert("completed_depth".into(), json!(self.completed_depth));
        m.insert("requested_depth".into(), json!(self.requested_depth));
        m.insert("deviation_budget".into(), json!(self.devs));
        m.insert("exhaustive".into(), json!(self.exhaustive));
        m.insert("frontier_sizes".into(), json!(self.frontier_sizes));
        m.insert("outcome_histogram".into(), json!(self.outcomes));
        m.insert("distinct_outcomes".into(), json!(self.outcomes.len()));
        m.insert("reexpanded_with_fewer_deviations".into(), json!(self.reexpanded));
        m.insert("self_loop_transitions".into(), json!(self.self_loops));
        if let Some((a, b)) = self.partial_level_nodes {
            m.insert("abandoned_level".into(), json!({"depth": self.completed_depth + 1, "expanded_nodes": a, "of": b, "reason": "wall cap"}));
        }
        m.insert("rule".into(), json!(rule));
        m.insert("samples".into(), json!(self.samples));
        m.insert("violating_instances".into(), json!(self.violations.total()));
        // Generic keys as well, so the file validates under either reading of the schema.
        m.insert("evaluations".into(), json!(self.paths_executed));
        m.insert("distinct_nontrivial".into(), json!(self.states));
        m
    }
}

struct Node<E> {
    hist: Vec<E>,
    devs: usize,
    key: u128,
}

fn rebuild<S: System>(make: &(impl Fn() -> S + Sync), hist: &[S::Ev], events: &AtomicUsize) -> S {
    let mut s = make();
    for ev in hist {
        // Violations along a stored history were recorded when it was first executed.
        let _ = s.step(ev);
        events.fetch_add(1, Ordering::Relaxed);
    }
    s
}

/// Explore all histories up to `bounds` and collect violations.
pub fn explore<S: System>(id: &str, make: impl Fn() -> S + Sync, bounds: Bounds) -> Result_<S::Ev> {
    let start = Instant::now();
    let events = AtomicUsize::new(0);
    let root = make();
    let k0 = crate::hash128(&root.canon());
    {
        // Construction itself must be deterministic.
        let again = make();
        if crate::hash128(&again.canon()) != k0 {
            machinery("initial state is not deterministic (two constructions gave different canonical keys)");
        }
    }
    drop(root);
    let mut seen: HashMap<u128, usize> = HashMap::new(); // key -> min deviations spent
    seen.insert(k0, 0);
    let mut frontier: Vec<Node<S::Ev>> = vec![Node { hist: vec![], devs: 0, key: k0 }];
    let mut res = Result_ {
        states: 1,
        transitions: 0,
        paths_executed: 0,
        events_executed: 0,
        completed_depth: 0,
        requested_depth: bounds.depth,
        devs: bounds.devs,
        exhaustive: true,
        frontier_sizes: vec![1],
        outcomes: BTreeMap::new(),
        violations: Violations::default(),
        samples: vec![],
        reexpanded: 0,
        self_loops: 0,
        partial_level_nodes: None,
    };
    let w = crate::workers();

    struct Emit<E> {
        key: u128,
        devs: usize,
        hist: Vec<E>,
    }
    struct Local<E> {
        emits: Vec<Emit<E>>,
        transitions: u64,
        self_loops: u64,
        outcomes: BTreeMap<String, u64>,
        violations: Violations,
    }

    for depth in 0..bounds.depth {
        if frontier.is_empty() {
            break;
        }
        if start.elapsed() > bounds.wall || seen.len() > bounds.max_states {
            res.exhaustive = false;
            break;
        }
        let next = AtomicUsize::new(0);
        let expired = std::sync::atomic::AtomicBool::new(false);
        let deadline = start + bounds.wall;
        let merged: Mutex<Vec<Local<S::Ev>>> = Mutex::new(vec![]);
        let fr = &frontier;
        let make_ref = &make;
        let events_ref = &events;
        std::thread::scope(|sc| {
            for _ in 0..w.min(fr.len()).max(1) {
                sc.spawn(|| {
                    let mut local = Local { emits: vec![], transitions: 0, self_loops: 0, outcomes: BTreeMap::new(), violations: Violations::default() };
                    loop {
                        let i = next.fetch_add(1, Ordering::Relaxed);
                        if i >= fr.len() {
                            break;
                        }
                        if Instant::now() > deadline {
                            // Wall cap hit inside a level: the level is abandoned (violations found
                            // so far are real executions and are kept), the run is not exhaustive
                            // beyond the previous depth.
                            expired.store(true, Ordering::Relaxed);
                            break;
                        }
                        let node = &fr[i];
                        let sys = match panics::catch(|| rebuild(make_ref, &node.hist, events_ref)) {
                            Ok(s) => s,
                            Err(c) => machinery(&format!("replay of a stored history panicked: {} ({}:{}) history={:?}", c.message, c.file, c.line, node.hist)),
                        };
                        if crate::hash128(&sys.canon()) != node.key {
                            machinery(&format!("replay divergence: history {:?} reached a different canonical state than when first executed", node.hist));
                        }
                        let todo: Vec<(S::Ev, usize)> = sys
                            .enabled()
                            .into_iter()
                            .map(|e| {
                                let dv = node.devs + sys.is_deviation(&e) as usize;
                                (e, dv)
                            })
                            .filter(|(_, dv)| *dv <= bounds.devs)
                            .collect();
                        // `cur` is a live system known to be in this node's state. An event that
                        // leaves the canonical key unchanged (a self-loop: a rejected input, a no-op)
                        // hands the object on to the next event instead of forcing a rebuild; this is
                        // sound under the same assumption deduplication already makes (equal keys
                        // have equal futures).
                        let mut cur = Some(sys);
                        let n_evs = todo.len();
                        for (j, (ev, dv)) in todo.iter().enumerate() {
                            let dv = *dv;
                            let mut s2 = match cur.take() {
                                Some(s) if j + 1 == n_evs => s,
                                Some(s) => match s.fork() {
                                    Some(f) => {
                                        cur = Some(s);
                                        f
                                    }
                                    None => s,
                                },
                                None => rebuild(make_ref, &node.hist, events_ref),
                            };
                            let mut hist = node.hist.clone();
                            hist.push(ev.clone());
                            local.transitions += 1;
                            events_ref.fetch_add(1, Ordering::Relaxed);
                            let node_key = node.key;
                            let stepped = panics::catch(move || {
                                let out = s2.step(ev);
                                let key = if out.dead { 0 } else { crate::hash128(&s2.canon()) };
                                let back = if !out.dead && key == node_key { Some(s2) } else { None };
                                (out, key, back)
                            });
                            let wit = |detail: Value| json!({"history": hist, "detail": detail});
                            match stepped {
                                Ok((out, key, back)) => {
                                    if cur.is_none() {
                                        cur = back;
                                    }
                                    *local.outcomes.entry(out.outcome).or_insert(0) += 1;
                                    for mut v in out.violations {
                                        v.witness = wit(v.witness);
                                        v.cost = (dv as u64) * 1000 + hist.len() as u64;
                                        local.violations.push(v);
                                    }
                                    if key == node_key && !out.dead {
                                        local.self_loops += 1;
                                        continue; // same state, already seen with <= deviations
                                    }
                                    if !out.dead {
                                        local.emits.push(Emit { key, devs: dv, hist });
                                    }
                                }
                                Err(c) => {
                                    if c.file.starts_with("chk-") || c.file.starts_with("mcx/") {
                                        machinery(&format!("harness panic in step: {} ({}:{}) history={:?}", c.message, c.file, c.line, hist));
                                    }
                                    *local.outcomes.entry(format!("panic:{}", c.site())).or_insert(0) += 1;
                                    if let Some(mut v) = S::on_panic(id, &c, ev) {
                                        v.witness = wit(json!({"panic": c.message, "file": c.file}));
                                        v.cost = (dv as u64) * 1000 + hist.len() as u64;
                                        local.violations.push(v);
                                    }
                                }
                            }
                        }
                    }
                    merged.lock().unwrap().push(local);
                });
            }
        });
        let mut emits: Vec<Emit<S::Ev>> = vec![];
        let level_expired = expired.load(Ordering::Relaxed);
        for l in merged.into_inner().unwrap() {
            res.transitions += l.transitions;
            res.self_loops += l.self_loops;
            for (k, v) in l.outcomes {
                *res.outcomes.entry(k).or_insert(0) += v;
            }
            res.violations.merge(l.violations);
            emits.extend(l.emits);
        }
        if level_expired {
            res.exhaustive = false;
            res.partial_level_nodes = Some((next.load(Ordering::Relaxed).min(frontier.len()), frontier.len()));
            break;
        }
        emits.sort_by(|a, b| (a.key, a.devs, &a.hist).cmp(&(b.key, b.devs, &b.hist)));
        let mut nextf: Vec<Node<S::Ev>> = vec![];
        let mut last: Option<u128> = None;
        for e in emits {
            if last == Some(e.key) {
                continue; // same state at this level with >= deviations
            }
            last = Some(e.key);
            match seen.get(&e.key) {
                Some(&d) if d <= e.devs => continue,
                Some(_) => {
                    res.reexpanded += 1;
                }
                None => {
                    res.states += 1;
                }
            }
            seen.insert(e.key, e.devs);
            nextf.push(Node { hist: e.hist, devs: e.devs, key: e.key });
        }
        res.completed_depth = depth + 1;
        res.frontier_sizes.push(nextf.len());
        frontier = nextf;
    }
    res.paths_executed = res.transitions;
    res.events_executed = events.load(Ordering::Relaxed) as u64;
    // Samples: a few of the deepest histories.
    let n = frontier.len();
    for i in [0, n / 2, n.saturating_sub(1)] {
        if let Some(nd) = frontier.get(i) {
            if !res.samples.contains_hist(&nd.hist) {
                res.samples.push(nd.hist.clone());
            }
        }
    }
    res
}

trait ContainsHist<E> {
    fn contains_hist(&self, h: &[E]) -> bool;
}
impl<E: Ord> ContainsHist<E> for Vec<Vec<E>> {
    fn contains_hist(&self, h: &[E]) -> bool {
        self.iter().any(|x| x.as_slice().cmp(h) == std::cmp::Ordering::Equal)
    }
}

/// Re-execute one history on a fresh system and return the violations of every step.
pub fn replay<S: System>(id: &str, make: impl Fn() -> S, witness: &Value) -> Vec<Violation> {
    let hist: Vec<S::Ev> = serde_json::from_value(witness.get("history").cloned().unwrap_or(Value::Null))
        .unwrap_or_else(|e| machinery(&format!("replay witness has no usable history: {e}")));
    let run = |hist: &[S::Ev]| -> (Vec<Violation>, Vec<u8>) {
        let mut s = make();
        let mut out = vec![];
        for (i, ev) in hist.iter().enumerate() {
            match panics::catch(|| s.step(ev)) {
                Ok(o) => {
                    if i + 1 == hist.len() {
                        out.extend(o.violations);
                    }
                }
                Err(c) => {
                    if let Some(v) = S::on_panic(id, &c, ev) {
                        out.push(v);
                    }
                    return (out, vec![]);
                }
            }
        }
        let c = s.canon();
        (out, c)
    };
    let (a, ca) = run(&hist);
    let (b, cb) = run(&hist);
    let fa: Vec<_> = a.iter().map(|v| v.fingerprint.clone()).collect();
    let fb: Vec<_> = b.iter().map(|v| v.fingerprint.clone()).collect();
    if fa != fb || ca != cb {
        machinery("replay is not deterministic (two executions of the same history differ)");
    }
    a
}
