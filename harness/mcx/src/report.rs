//! Context, violations, known findings, evidence files, exit-code discipline.
//!
//! Exit codes: 0 = held (or only listed known findings), 1 = a violation not listed in
//! /verif/known_findings.json, 2 = machinery error (never a verdict).

use serde::{Deserialize, Serialize};
use serde_json::{json, Map, Value};
use std::collections::BTreeMap;
use std::path::{Path, PathBuf};
use std::time::Instant;

#[derive(Debug, Clone, Copy, PartialEq, Eq)]
pub enum Tier {
    Quick,
    Thorough,
}

impl Tier {
    pub fn as_str(&self) -> &'static str {
        match self {
            Tier::Quick => "quick",
            Tier::Thorough => "thorough",
        }
    }
    /// Pick a bound by tier.
    pub fn pick<T>(&self, quick: T, thorough: T) -> T {
        match self {
            Tier::Quick => quick,
            Tier::Thorough => thorough,
        }
    }
}

pub fn verif_root() -> PathBuf {
    std::env::var_os("VERIF_ROOT").map(PathBuf::from).unwrap_or_else(|| PathBuf::from("/verif"))
}

#[derive(Debug, Clone, Serialize, Deserialize)]
pub struct Violation {
    /// Oracle clause + abstract shape of the witness. Two different defects never share one.
    pub fingerprint: String,
    /// One-line human description of what failed.
    pub what: String,
    /// Everything needed to re-execute exactly this item / history (`--replay`).
    pub witness: Value,
    /// Smaller is better when choosing the representative witness of a fingerprint.
    #[serde(default)]
    pub cost: u64,
}

impl Violation {
    pub fn new(fingerprint: impl Into<String>, what: impl Into<String>, witness: Value) -> Self {
        Violation { fingerprint: fingerprint.into(), what: what.into(), witness, cost: 0 }
    }
    pub fn cost(mut self, c: u64) -> Self {
        self.cost = c;
        self
    }
}

#[derive(Debug, Clone, Deserialize)]
pub struct KnownEntry {
    pub property: String,
    pub fingerprint: String,
    /// "known" (recorded, suppresses the alarm) or "fixed" (documentation only, suppresses nothing).
    pub status: String,
    #[serde(default)]
    pub what: String,
}

#[derive(Debug, Clone, Deserialize, Default)]
pub struct KnownFile {
    #[serde(default)]
    pub findings: Vec<KnownEntry>,
}

const WITNESS_CAP: u64 = 3;

/// Bounded collection of violations: a few witnesses per fingerprint, all instances counted.
#[derive(Default, Clone, Serialize, Deserialize)]
pub struct Violations {
    pub by_fp: BTreeMap<String, (Vec<Violation>, u64)>,
}

impl Violations {
    pub fn push(&mut self, v: Violation) {
        let e = self.by_fp.entry(v.fingerprint.clone()).or_insert_with(|| (vec![], 0));
        e.1 += 1;
        if (e.0.len() as u64) < WITNESS_CAP {
            e.0.push(v);
        } else if let Some(worst) = e.0.iter_mut().max_by_key(|w| w.cost) {
            if v.cost < worst.cost {
                *worst = v;
            }
        }
    }
    pub fn extend(&mut self, vs: Vec<Violation>) {
        for v in vs {
            self.push(v);
        }
    }
    pub fn merge(&mut self, other: Violations) {
        for (fp, (ws, n)) in other.by_fp {
            let e = self.by_fp.entry(fp).or_insert_with(|| (vec![], 0));
            e.1 += n;
            for w in ws {
                if (e.0.len() as u64) < WITNESS_CAP {
                    e.0.push(w);
                } else if let Some(worst) = e.0.iter_mut().max_by_key(|x| x.cost) {
                    if w.cost < worst.cost {
                        *worst = w;
                    }
                }
            }
        }
    }
    pub fn is_empty(&self) -> bool {
        self.by_fp.is_empty()
    }
    pub fn total(&self) -> u64 {
        self.by_fp.values().map(|v| v.1).sum()
    }
}

pub struct Ctx {
    pub id: &'static str,
    pub level: &'static str,
    pub tier: Tier,
    pub seed: u64,
    pub replay: Option<PathBuf>,
    pub started: Instant,
    pub extra_args: Vec<String>,
}

impl Ctx {
    /// Parse `--tier quick|thorough`, `--replay FILE`; env `VERIF_TIER`, `VERIF_SEED`.
    pub fn from_env(id: &'static str, level: &'static str) -> Ctx {
        let mut tier = match std::env::var("VERIF_TIER").ok().as_deref() {
            Some("thorough") => Tier::Thorough,
            _ => Tier::Quick,
        };
        let mut replay = None;
        let mut extra = Vec::new();
        let mut args = std::env::args().skip(1);
        while let Some(a) = args.next() {
            match a.as_str() {
                "--tier" => {
                    tier = match args.next().as_deref() {
                        Some("thorough") => Tier::Thorough,
                        Some("quick") => Tier::Quick,
                        other => machinery(&format!("bad --tier {:?}", other)),
                    }
                }
                "--replay" => replay = Some(PathBuf::from(args.next().unwrap_or_default())),
                _ => extra.push(a),
            }
        }
        let seed = std::env::var("VERIF_SEED").ok().and_then(|s| s.parse::<u64>().ok()).unwrap_or(1);
        // Every RandomState / fastrand use inside the repository reads this.
        std::env::set_var("RAD_RNG_SEED", seed.to_string());
        crate::panics::install();
        // Replay-from-scratch builds and drops many medium-sized objects (sqlite page caches,
        // bloom filters) per transition; without this glibc returns the memory to the kernel after
        // every drop (madvise + page faults dominate the run time and serialise the threads).
        unsafe {
            libc::mallopt(libc::M_TRIM_THRESHOLD, 1 << 30);
            libc::mallopt(libc::M_MMAP_THRESHOLD, 16 << 20);
            libc::mallopt(libc::M_TOP_PAD, 64 << 20);
        }
        Ctx { id, level, tier, seed, replay, started: Instant::now(), extra_args: extra }
    }

    pub fn pick<T>(&self, quick: T, thorough: T) -> T {
        self.tier.pick(quick, thorough)
    }

    /// If `--replay FILE` was given, load the witness from it.
    pub fn replay_witness(&self) -> Option<Value> {
        let p = self.replay.as_ref()?;
        let text = std::fs::read_to_string(p)
            .unwrap_or_else(|e| machinery(&format!("cannot read replay {}: {e}", p.display())));
        let v: Value = serde_json::from_str(&text)
            .unwrap_or_else(|e| machinery(&format!("bad replay file {}: {e}", p.display())));
        Some(v.get("witness").cloned().unwrap_or(v))
    }

    /// Finish a replay: print the verdict for the single re-executed item.
    pub fn finish_replay(&self, violations: Vec<Violation>) -> ! {
        if violations.is_empty() {
            println!("REPLAY property={} verdict=held", self.id);
            std::process::exit(0);
        }
        for v in &violations {
            println!("REPLAY property={} verdict=violation fingerprint={} :: {}", self.id, v.fingerprint, v.what);
        }
        std::process::exit(1);
    }

    /// Write evidence, classify violations against the known-findings file, print the
    /// interface lines and exit.
    pub fn finish(&self, mut coverage: Map<String, Value>, assumptions: &[&str], violations: Violations) -> ! {
        let mut groups: BTreeMap<String, (Violation, u64)> = BTreeMap::new();
        for (fp, (mut ws, n)) in violations.by_fp {
            ws.sort_by_key(|w| (w.cost, w.witness.to_string().len()));
            groups.insert(fp, (ws.remove(0), n));
        }
        let known = load_known();
        let mut new_violations = 0;
        let mut known_seen = Vec::new();
        let mut lines = Vec::new();
        for (fp, (v, n)) in &groups {
            let listed = known
                .findings
                .iter()
                .any(|k| k.status == "known" && k.property == self.id && &k.fingerprint == fp);
            if listed {
                known_seen.push(fp.clone());
                lines.push(format!(
                    "KNOWN-FINDING: property={} {} [{}; {} instance(s) in this run]",
                    self.id, v.what, fp, n
                ));
            } else {
                new_violations += 1;
                let path = write_replay(self, v, *n);
                lines.push(format!("VIOLATION property={} replay={}", self.id, path.display()));
                lines.push(format!("  fingerprint={} instances={} :: {}", fp, n, v.what));
            }
        }
        coverage.insert("known_findings_observed".into(), json!(known_seen));
        coverage.insert(
            "violation_fingerprints".into(),
            json!(groups.iter().map(|(k, (_, n))| json!({"fingerprint": k, "instances": n})).collect::<Vec<_>>()),
        );
        let ev = json!({
            "property_id": self.id,
            "tier": self.tier.as_str(),
            "seed": self.seed,
            "level": self.level,
            "coverage": Value::Object(coverage.clone()),
            "assumptions": assumptions,
            "wall_s": (self.started.elapsed().as_secs_f64() * 1000.0).round() / 1000.0,
            "violations": new_violations,
        });
        let dir = verif_root().join("evidence");
        let _ = std::fs::create_dir_all(&dir);
        let path = dir.join(format!("{}.json", self.id));
        let tmp = dir.join(format!(".{}.json.tmp", self.id));
        std::fs::write(&tmp, serde_json::to_string_pretty(&ev).unwrap() + "\n")
            .and_then(|_| std::fs::rename(&tmp, &path))
            .unwrap_or_else(|e| machinery(&format!("cannot write evidence {}: {e}", path.display())));

        // Human summary (stdout).
        let brief: Vec<String> = coverage
            .iter()
            .filter(|(_, v)| v.is_number() || v.is_boolean())
            .map(|(k, v)| format!("{k}={v}"))
            .collect();
        println!("{} tier={} seed={} {} wall={:.1}s", self.id, self.tier.as_str(), self.seed, brief.join(" "), self.started.elapsed().as_secs_f64());
        for l in &lines {
            println!("{l}");
        }
        if new_violations > 0 {
            std::process::exit(1);
        }
        println!("OK property={} (held on everything explored{})", self.id, if known_seen.is_empty() { "" } else { "; known findings re-observed" });
        std::process::exit(0);
    }
}

pub fn load_known() -> KnownFile {
    let p = verif_root().join("known_findings.json");
    match std::fs::read_to_string(&p) {
        Ok(t) => serde_json::from_str(&t).unwrap_or_else(|e| machinery(&format!("bad known_findings.json: {e}"))),
        Err(_) => KnownFile::default(),
    }
}

fn sanitize(s: &str) -> String {
    let mut out: String = s
        .chars()
        .map(|c| if c.is_ascii_alphanumeric() || c == '-' || c == '_' || c == '.' { c } else { '_' })
        .collect();
    if out.len() > 80 {
        let h = crate::fnv64(s.as_bytes());
        out.truncate(64);
        out.push_str(&format!("-{h:016x}"));
    }
    out
}

fn write_replay(ctx: &Ctx, v: &Violation, instances: u64) -> PathBuf {
    let dir = verif_root().join("replays").join(ctx.id);
    let _ = std::fs::create_dir_all(&dir);
    let path = dir.join(format!("{}.json", sanitize(&v.fingerprint)));
    let doc = json!({
        "property": ctx.id,
        "fingerprint": v.fingerprint,
        "what": v.what,
        "instances_in_run": instances,
        "tier": ctx.tier.as_str(),
        "seed": ctx.seed,
        "witness": v.witness,
    });
    if let Err(e) = std::fs::write(&path, serde_json::to_string_pretty(&doc).unwrap() + "\n") {
        machinery(&format!("cannot write replay {}: {e}", path.display()));
    }
    path
}

/// Machinery error: never a verdict.
pub fn machinery(msg: &str) -> ! {
    eprintln!("MACHINERY-ERROR: {msg}");
    std::process::exit(2);
}

/// Helper to build a coverage map.
pub fn coverage(pairs: Vec<(&str, Value)>) -> Map<String, Value> {
    let mut m = Map::new();
    for (k, v) in pairs {
        m.insert(k.to_string(), v);
    }
    m
}

pub fn exists(p: &Path) -> bool {
    p.exists()
}
