//! Counting global allocator (installed by the check binaries that need it, never in /repo).
//!
//! While a thread-local guard is active it records the largest single allocation request made
//! by that thread. A request above `HARD_CAP` is never forwarded to the system allocator: the
//! process writes `MCX-OVERSIZE <bytes>` to stderr and `_exit`s with code 77, so that a decoder
//! that tries to allocate 2^62 bytes is observed without taking the machine down. Checks that
//! use this run their items through `sweep::procs`, which attributes the exit to the item.

use std::alloc::{GlobalAlloc, Layout, System};
use std::cell::Cell;

pub const HARD_CAP: usize = 256 << 20;
pub const OVERSIZE_EXIT: i32 = 77;

thread_local! {
    static ACTIVE: Cell<bool> = const { Cell::new(false) };
    static MAX_REQ: Cell<usize> = const { Cell::new(0) };
    static TOTAL: Cell<usize> = const { Cell::new(0) };
}

pub struct Counting;

unsafe impl GlobalAlloc for Counting {
    unsafe fn alloc(&self, l: Layout) -> *mut u8 {
        note(l.size());
        System.alloc(l)
    }
    unsafe fn alloc_zeroed(&self, l: Layout) -> *mut u8 {
        note(l.size());
        System.alloc_zeroed(l)
    }
    unsafe fn realloc(&self, p: *mut u8, l: Layout, new: usize) -> *mut u8 {
        note(new);
        System.realloc(p, l, new)
    }
    unsafe fn dealloc(&self, p: *mut u8, l: Layout) {
        System.dealloc(p, l)
    }
}

#[inline]
fn note(size: usize) {
    // `try_with`: thread-local storage may be gone during thread teardown.
    let active = ACTIVE.try_with(|a| a.get()).unwrap_or(false);
    if !active {
        return;
    }
    let _ = MAX_REQ.try_with(|m| {
        if size > m.get() {
            m.set(size)
        }
    });
    let _ = TOTAL.try_with(|t| t.set(t.get().saturating_add(size)));
    if size > HARD_CAP {
        let _ = ACTIVE.try_with(|a| a.set(false)); // the format! below allocates
        let msg = format!("MCX-OVERSIZE {size}\n");
        unsafe {
            libc::write(2, msg.as_ptr() as *const libc::c_void, msg.len());
            libc::_exit(OVERSIZE_EXIT);
        }
    }
}

/// Measure the allocations of `f` on this thread: (largest single request, sum of requests).
pub fn measure<T>(f: impl FnOnce() -> T) -> (T, usize, usize) {
    MAX_REQ.with(|m| m.set(0));
    TOTAL.with(|t| t.set(0));
    ACTIVE.with(|a| a.set(true));
    let r = f();
    ACTIVE.with(|a| a.set(false));
    (r, MAX_REQ.with(|m| m.get()), TOTAL.with(|t| t.get()))
}
