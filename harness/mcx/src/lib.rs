//! mcx — the two bounded-exhaustive engines and the evidence / replay / known-findings
//! plumbing shared by every check (see /verif/DESIGN.md §3).
//!
//! * [`explore`] — Engine A: explicit-state breadth-first search over event histories applied to
//!   real objects (replay-from-scratch or fork), depth bound + deviation budget.
//! * [`sweep`]  — Engine B: exhaustive enumeration of an indexed finite space, in threads or, when
//!   an abort / hang is itself a possible verdict, in isolated worker processes with a watchdog.
//! * [`report`] — violations, fingerprints, known findings, evidence files, exit codes.
//! * [`alloc`]  — counting global allocator used as an observable (C14).

pub mod alloc;
pub mod explore;
pub mod report;
pub mod sweep;

pub use report::{Ctx, Tier, Violation};

/// 64-bit FNV-1a, used for cheap class keys.
pub fn fnv64(bytes: &[u8]) -> u64 {
    let mut h: u64 = 0xcbf29ce484222325;
    for b in bytes {
        h ^= *b as u64;
        h = h.wrapping_mul(0x100000001b3);
    }
    h
}

/// 128-bit state hash (two independent FNV-style lanes with different offsets / primes and a
/// final avalanche). Collisions would silently merge states, so 128 bits are used.
pub fn hash128(bytes: &[u8]) -> u128 {
    let mut a: u64 = 0xcbf29ce484222325;
    let mut b: u64 = 0x9e3779b97f4a7c15;
    for x in bytes {
        a ^= *x as u64;
        a = a.wrapping_mul(0x100000001b3);
        b = (b ^ (*x as u64).wrapping_add(0x7f)).wrapping_mul(0xff51afd7ed558ccd);
        b ^= b >> 29;
    }
    a ^= bytes.len() as u64;
    a = (a ^ (a >> 33)).wrapping_mul(0xc4ceb9fe1a85ec53);
    a ^= a >> 32;
    b = (b ^ (b >> 31)).wrapping_mul(0x94d049bb133111eb);
    b ^= b >> 30;
    ((a as u128) << 64) | b as u128
}

/// Number of workers to use.
pub fn workers() -> usize {
    let n = std::thread::available_parallelism().map(|n| n.get()).unwrap_or(4);
    std::env::var("VERIF_JOBS").ok().and_then(|s| s.parse().ok()).unwrap_or(n).clamp(1, 32)
}

pub mod panics {
    //! Panic capture: a process-wide hook that records the message and location of the last
    //! panic of the current thread instead of printing it.
    use std::cell::RefCell;
    use std::panic::{self, AssertUnwindSafe};
    use std::sync::Once;

    #[derive(Debug, Clone)]
    pub struct Caught {
        pub message: String,
        /// `file` of the panic location (no line: lines move with unrelated edits).
        pub file: String,
        pub line: u32,
    }

    impl Caught {
        /// Stable description used in fingerprints: file plus the message with digits, hex ids
        /// and quoted payloads normalised.
        pub fn site(&self) -> String {
            let mut msg = String::new();
            let mut last_hash = false;
            // Only the constant head of the message: stop at the first payload delimiter so that
            // Debug dumps of the offending value (keys, signatures, ids) do not split one defect into
            // thousands of fingerprints.
            let head_end = self.message.find(|c| c == '{' || c == '(' || c == '[' || c == '\n' || c == '"').unwrap_or(self.message.len());
            for c in self.message[..head_end].chars().take(96) {
                if c.is_ascii_digit() {
                    if !last_hash {
                        msg.push('#');
                        last_hash = true;
                    }
                } else {
                    msg.push(c);
                    last_hash = false;
                }
            }
            let file = self.file.rsplit("/crates/").next().unwrap_or(&self.file).to_string();
            let file = match file.find("/.cargo/registry/src/") {
                Some(i) => file[i + 21..].splitn(2, '/').nth(1).unwrap_or(&file).to_string(),
                None => file,
            };
            format!("{}:{}", file, msg.trim())
        }
    }

    thread_local! {
        static LAST: RefCell<Option<Caught>> = const { RefCell::new(None) };
        static QUIET: RefCell<bool> = const { RefCell::new(false) };
    }
    static INSTALL: Once = Once::new();

    pub fn install() {
        INSTALL.call_once(|| {
            let default = panic::take_hook();
            panic::set_hook(Box::new(move |info| {
                let quiet = QUIET.with(|q| *q.borrow());
                if !quiet {
                    default(info);
                    return;
                }
                let message = if let Some(s) = info.payload().downcast_ref::<&str>() {
                    s.to_string()
                } else if let Some(s) = info.payload().downcast_ref::<String>() {
                    s.clone()
                } else {
                    "<non-string panic payload>".to_string()
                };
                let (file, line) = info
                    .location()
                    .map(|l| (l.file().to_string(), l.line()))
                    .unwrap_or_default();
                LAST.with(|l| *l.borrow_mut() = Some(Caught { message, file, line }));
            }));
        });
    }

    /// Run `f`, catching a panic of the code under test. The hook is silenced for the duration.
    pub fn catch<T>(f: impl FnOnce() -> T) -> Result<T, Caught> {
        install();
        let prev = QUIET.with(|q| std::mem::replace(&mut *q.borrow_mut(), true));
        LAST.with(|l| *l.borrow_mut() = None);
        let r = panic::catch_unwind(AssertUnwindSafe(f));
        QUIET.with(|q| *q.borrow_mut() = prev);
        match r {
            Ok(v) => Ok(v),
            Err(_) => Err(LAST.with(|l| l.borrow_mut().take()).unwrap_or(Caught {
                message: "<panic without hook record>".into(),
                file: String::new(),
                line: 0,
            })),
        }
    }
}
