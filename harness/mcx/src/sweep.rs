//! Engine B — exhaustive enumeration of an indexed finite space.
//!
//! The space is `0..n`; the check decodes an index into an item (mixed-radix, see [`Radix`]),
//! runs the real code on it and returns an [`ItemOut`]. Two drivers:
//!
//! * [`threads`]: contiguous chunks handed to worker threads; a panic of the code under test is
//!   caught per item.
//! * [`procs`]: the same, but every chunk runs in a re-executed copy of the check binary, so an
//!   abort (allocation failure, stack overflow, `_exit` from the counting allocator) or a hang
//!   kills only that worker. The failing chunk is then re-run item by item in a fresh worker
//!   ("slow mode") to attribute the crash to one index, which becomes a violation, and the sweep
//!   resumes at the next index.

use crate::panics;
use crate::report::{machinery, Violation, Violations};
use serde::{Deserialize, Serialize};
use serde_json::{json, Map, Value};
use std::collections::{BTreeMap, HashSet};
use std::io::{BufRead, BufReader, Read, Write};
use std::process::{Child, Command, Stdio};
use std::sync::atomic::{AtomicU64, Ordering};
use std::sync::mpsc;
use std::sync::Mutex;
use std::time::Duration;

/// Result of evaluating one item.
#[derive(Default)]
pub struct ItemOut {
    /// Shape key of the item; `0` means "trivial by the check's rule". Distinct non-zero keys are
    /// counted as `distinct_nontrivial`.
    pub class: u64,
    /// Small-cardinality label of what happened (e.g. "accepted", "rejected:Diverging"); the
    /// histogram is reported and a single label over many items flags a vacuous driver.
    pub outcome: String,
    pub violations: Vec<Violation>,
}

impl ItemOut {
    pub fn new(class: u64, outcome: impl Into<String>) -> Self {
        ItemOut { class, outcome: outcome.into(), violations: vec![] }
    }
    pub fn with(mut self, v: Vec<Violation>) -> Self {
        self.violations = v;
        self
    }
}

const CLASS_CAP: usize = 4_000_000;
#[derive(Default)]
pub struct Stats {
    pub evaluations: u64,
    pub classes: HashSet<u64>,
    pub classes_capped: bool,
    pub trivial: u64,
    pub outcomes: BTreeMap<String, u64>,
    pub violations: Violations,
    /// Indexes that crashed / hung a worker (procs driver only).
    pub crashed_items: Vec<u64>,
    pub n: u64,
}

impl Stats {
    fn absorb_item(&mut self, out: ItemOut) {
        self.evaluations += 1;
        if out.class == 0 {
            self.trivial += 1;
        } else if self.classes.len() < CLASS_CAP {
            self.classes.insert(out.class);
        } else {
            self.classes_capped = true;
        }
        *self.outcomes.entry(out.outcome).or_insert(0) += 1;
        self.violations.extend(out.violations);
    }
    pub fn merge(&mut self, o: Stats) {
        self.evaluations += o.evaluations;
        self.trivial += o.trivial;
        self.classes_capped |= o.classes_capped;
        for c in o.classes {
            if self.classes.len() < CLASS_CAP {
                self.classes.insert(c);
            } else {
                self.classes_capped = true;
            }
        }
        for (k, v) in o.outcomes {
            *self.outcomes.entry(k).or_insert(0) += v;
        }
        self.violations.merge(o.violations);
        self.crashed_items.extend(o.crashed_items);
        self.n += o.n;
    }
    pub fn exhaustive(&self) -> bool {
        self.evaluations == self.n
    }
    /// Standard coverage keys for exploration / fault_enumeration evidence.
    pub fn coverage(&self, rule: &str, samples: Vec<Value>) -> Map<String, Value> {
        let mut m = Map::new();
        m.insert("evaluations".into(), json!(self.evaluations));
        m.insert("distinct_nontrivial".into(), json!(self.classes.len()));
        m.insert("distinct_nontrivial_is_lower_bound".into(), json!(self.classes_capped));
        m.insert("trivial".into(), json!(self.trivial));
        m.insert("space_size".into(), json!(self.n));
        m.insert("exhaustive".into(), json!(self.exhaustive()));
        m.insert("rule".into(), json!(rule));
        m.insert("outcome_histogram".into(), json!(self.outcomes));
        m.insert("distinct_outcomes".into(), json!(self.outcomes.len()));
        m.insert("samples".into(), json!(samples));
        m.insert("violating_instances".into(), json!(self.violations.total()));
        m
    }
}

fn in_child() -> Option<String> {
    std::env::var("MCX_CHILD").ok()
}

fn harness_panic(site: &str) -> bool {
    site.starts_with("/verif/") || site.contains("/harness/") || site.starts_with("chk-") || site.starts_with("mcx/")
}

/// Evaluate one item, converting a panic of the code under test into a violation produced by
/// `on_panic` (or a machinery error when the panic is in harness code or `on_panic` is `None`).
fn eval_one<F, P>(i: u64, eval: &F, on_panic: &Option<P>) -> ItemOut
where
    F: Fn(u64) -> ItemOut,
    P: Fn(u64, &panics::Caught) -> Violation,
{
    match panics::catch(|| eval(i)) {
        Ok(o) => o,
        Err(c) => {
            let site = c.site();
            if harness_panic(&c.file) {
                machinery(&format!("harness panic at item {i}: {} ({}:{})", c.message, c.file, c.line));
            }
            match on_panic {
                Some(f) => {
                    let v = f(i, &c);
                    ItemOut { class: crate::fnv64(site.as_bytes()) | 1, outcome: format!("panic:{site}"), violations: vec![v] }
                }
                None => machinery(&format!("unexpected panic at item {i}: {} ({}:{})", c.message, c.file, c.line)),
            }
        }
    }
}

/// Threaded exhaustive sweep of `0..n`.
pub fn threads<F, P>(n: u64, eval: F, on_panic: Option<P>) -> Stats
where
    F: Fn(u64) -> ItemOut + Sync,
    P: Fn(u64, &panics::Caught) -> Violation + Sync,
{
    let mut total = Stats { n, ..Default::default() };
    if in_child().is_some() || n == 0 {
        return total;
    }
    let w = crate::workers().min(n as usize).max(1);
    let chunk = (n / (w as u64 * 16)).clamp(1, 1 << 16);
    let next = AtomicU64::new(0);
    let merged = Mutex::new(Stats::default());
    std::thread::scope(|s| {
        for _ in 0..w {
            s.spawn(|| {
                let mut local = Stats::default();
                loop {
                    let lo = next.fetch_add(chunk, Ordering::Relaxed);
                    if lo >= n {
                        break;
                    }
                    let hi = (lo + chunk).min(n);
                    for i in lo..hi {
                        let out = eval_one(i, &eval, &on_panic);
                        local.absorb_item(out);
                    }
                }
                merged.lock().unwrap().merge(local);
            });
        }
    });
    let m = merged.into_inner().unwrap();
    total.merge(m);
    total.n = n;
    total
}

/// No-panic-handler marker type for `threads::<_, NoPanic>(…, None)`.
pub type NoPanic = fn(u64, &panics::Caught) -> Violation;

#[derive(Clone, Copy, Debug)]
pub enum Crash {
    /// Worker exited abnormally: signal number or exit code.
    Abort { signal: Option<i32>, code: Option<i32> },
    /// Item did not finish within the item timeout.
    Hang,
}

pub struct ProcOpts {
    pub chunk_timeout: Duration,
    pub item_timeout: Duration,
    pub chunk: Option<u64>,
}

impl Default for ProcOpts {
    fn default() -> Self {
        ProcOpts { chunk_timeout: Duration::from_secs(120), item_timeout: Duration::from_secs(10), chunk: None }
    }
}

#[derive(Serialize, Deserialize, Default)]
struct ChunkResult {
    lo: u64,
    hi: u64,
    evaluations: u64,
    trivial: u64,
    classes: Vec<u64>,
    outcomes: BTreeMap<String, u64>,
    violations: Violations,
}

/// Process-isolated exhaustive sweep of `0..n`. `name` must be unique per call site in a binary.
pub fn procs<F, P, C>(name: &str, n: u64, opts: ProcOpts, eval: F, on_panic: Option<P>, on_crash: C) -> Stats
where
    F: Fn(u64) -> ItemOut + Sync,
    P: Fn(u64, &panics::Caught) -> Violation + Sync,
    C: Fn(u64, Crash, &str) -> Violation + Sync,
{
    if let Some(child) = in_child() {
        if child == name {
            child_main(&eval, &on_panic);
        }
        return Stats { n, ..Default::default() };
    }
    let mut total = Stats { n, ..Default::default() };
    if n == 0 {
        return total;
    }
    let w = crate::workers().min(n as usize).max(1);
    let chunk = opts.chunk.unwrap_or_else(|| (n / (w as u64 * 8)).clamp(1, 1 << 16));
    let next = AtomicU64::new(0);
    let merged = Mutex::new(Stats::default());
    std::thread::scope(|s| {
        for _ in 0..w {
            s.spawn(|| {
                let mut local = Stats::default();
                let mut worker: Option<Worker> = None;
                loop {
                    let lo = next.fetch_add(chunk, Ordering::Relaxed);
                    if lo >= n {
                        break;
                    }
                    let hi = (lo + chunk).min(n);
                    let wk = worker.get_or_insert_with(|| Worker::spawn(name));
                    match wk.run(lo, hi, opts.chunk_timeout) {
                        Ok(r) => absorb_chunk(&mut local, r),
                        Err(_) => {
                            // Crash or hang somewhere in lo..hi: attribute item by item.
                            worker.take().map(|w| w.kill());
                            let mut i = lo;
                            while i < hi {
                                let wk = worker.get_or_insert_with(|| Worker::spawn(name));
                                let mut attempt = wk.run(i, i + 1, opts.item_timeout);
                                if let Err(Crash::Hang) = attempt {
                                    // A timeout is a timing verdict: before calling it a hang, run
                                    // the item once more, alone, with eight times the budget (a
                                    // loaded machine must not turn a slow item into a violation).
                                    worker.take().map(|w| w.kill());
                                    let wk = worker.get_or_insert_with(|| Worker::spawn(name));
                                    attempt = wk.run(i, i + 1, opts.item_timeout * 8);
                                }
                                match attempt {
                                    Ok(r) => absorb_chunk(&mut local, r),
                                    Err(crash) => {
                                        let w = worker.take().unwrap();
                                        let tail = w.kill();
                                        let v = on_crash(i, crash, &tail);
                                        local.evaluations += 1;
                                        let label = match crash {
                                            Crash::Hang => "hang".to_string(),
                                            Crash::Abort { signal, code } => format!("abort(signal={signal:?},code={code:?})"),
                                        };
                                        *local.outcomes.entry(label).or_insert(0) += 1;
                                        local.classes.insert(crate::fnv64(v.fingerprint.as_bytes()) | 1);
                                        local.violations.push(v);
                                        local.crashed_items.push(i);
                                    }
                                }
                                i += 1;
                            }
                        }
                    }
                }
                if let Some(w) = worker.take() {
                    w.finish();
                }
                merged.lock().unwrap().merge(local);
            });
        }
    });
    total.merge(merged.into_inner().unwrap());
    total.n = n;
    total
}

fn absorb_chunk(local: &mut Stats, r: ChunkResult) {
    local.evaluations += r.evaluations;
    local.trivial += r.trivial;
    for c in r.classes {
        if local.classes.len() < CLASS_CAP {
            local.classes.insert(c);
        } else {
            local.classes_capped = true;
        }
    }
    for (k, v) in r.outcomes {
        *local.outcomes.entry(k).or_insert(0) += v;
    }
    local.violations.merge(r.violations);
}

struct Worker {
    child: Child,
    stdin: std::process::ChildStdin,
    lines: mpsc::Receiver<String>,
    stderr: std::sync::Arc<Mutex<Vec<u8>>>,
}

impl Worker {
    fn spawn(name: &str) -> Worker {
        let exe = std::env::current_exe().unwrap_or_else(|e| machinery(&format!("current_exe: {e}")));
        let mut child = Command::new(exe)
            .args(std::env::args().skip(1))
            .env("MCX_CHILD", name)
            .stdin(Stdio::piped())
            .stdout(Stdio::piped())
            .stderr(Stdio::piped())
            .spawn()
            .unwrap_or_else(|e| machinery(&format!("cannot spawn worker: {e}")));
        let stdin = child.stdin.take().unwrap();
        let stdout = child.stdout.take().unwrap();
        let mut err = child.stderr.take().unwrap();
        let (tx, rx) = mpsc::channel();
        std::thread::spawn(move || {
            let r = BufReader::new(stdout);
            for line in r.lines() {
                match line {
                    Ok(l) => {
                        if tx.send(l).is_err() {
                            break;
                        }
                    }
                    Err(_) => break,
                }
            }
        });
        let stderr = std::sync::Arc::new(Mutex::new(Vec::new()));
        let se = stderr.clone();
        std::thread::spawn(move || {
            let mut buf = [0u8; 4096];
            loop {
                match err.read(&mut buf) {
                    Ok(0) | Err(_) => break,
                    Ok(k) => {
                        let mut g = se.lock().unwrap();
                        g.extend_from_slice(&buf[..k]);
                        let len = g.len();
                        if len > 16384 {
                            g.drain(..len - 8192);
                        }
                    }
                }
            }
        });
        Worker { child, stdin, lines: rx, stderr }
    }

    fn run(&mut self, lo: u64, hi: u64, timeout: Duration) -> Result<ChunkResult, Crash> {
        if writeln!(self.stdin, "{lo} {hi}").and_then(|_| self.stdin.flush()).is_err() {
            return Err(self.status());
        }
        loop {
            match self.lines.recv_timeout(timeout) {
                Ok(line) => {
                    if let Some(rest) = line.strip_prefix("MCX-RESULT ") {
                        match serde_json::from_str::<ChunkResult>(rest) {
                            Ok(r) if r.lo == lo && r.hi == hi => return Ok(r),
                            _ => machinery("worker protocol error (bad result line)"),
                        }
                    }
                    // Any other stdout line from the code under test is ignored.
                }
                Err(mpsc::RecvTimeoutError::Timeout) => return Err(Crash::Hang),
                Err(mpsc::RecvTimeoutError::Disconnected) => return Err(self.status()),
            }
        }
    }

    fn status(&mut self) -> Crash {
        use std::os::unix::process::ExitStatusExt;
        // Give the process a moment to be reaped.
        for _ in 0..200 {
            if let Ok(Some(st)) = self.child.try_wait() {
                return Crash::Abort { signal: st.signal(), code: st.code() };
            }
            std::thread::sleep(Duration::from_millis(10));
        }
        Crash::Hang
    }

    /// Kill the worker and return the tail of its stderr.
    fn kill(mut self) -> String {
        let _ = self.child.kill();
        let _ = self.child.wait();
        std::thread::sleep(Duration::from_millis(5));
        let g = self.stderr.lock().unwrap();
        let s = String::from_utf8_lossy(&g).to_string();
        let tail: String = s.chars().rev().take(600).collect::<Vec<_>>().into_iter().rev().collect();
        tail
    }

    fn finish(mut self) {
        drop(self.stdin);
        let _ = self.child.wait();
    }
}

fn child_main<F, P>(eval: &F, on_panic: &Option<P>) -> !
where
    F: Fn(u64) -> ItemOut,
    P: Fn(u64, &panics::Caught) -> Violation,
{
    let stdin = std::io::stdin();
    let mut line = String::new();
    loop {
        line.clear();
        match stdin.lock().read_line(&mut line) {
            Ok(0) | Err(_) => std::process::exit(0),
            Ok(_) => {}
        }
        let mut it = line.split_whitespace();
        let lo: u64 = it.next().and_then(|s| s.parse().ok()).unwrap_or(0);
        let hi: u64 = it.next().and_then(|s| s.parse().ok()).unwrap_or(0);
        let mut st = Stats::default();
        for i in lo..hi {
            let out = eval_one(i, eval, on_panic);
            st.absorb_item(out);
        }
        let r = ChunkResult {
            lo,
            hi,
            evaluations: st.evaluations,
            trivial: st.trivial,
            classes: st.classes.into_iter().collect(),
            outcomes: st.outcomes,
            violations: st.violations,
        };
        let mut out = std::io::stdout().lock();
        let _ = writeln!(out, "MCX-RESULT {}", serde_json::to_string(&r).unwrap());
        let _ = out.flush();
    }
}

/// Mixed-radix decoder: turns an index into one digit per dimension.
#[derive(Clone, Debug)]
pub struct Radix {
    pub dims: Vec<u64>,
}

impl Radix {
    pub fn new(dims: &[u64]) -> Radix {
        Radix { dims: dims.to_vec() }
    }
    pub fn size(&self) -> u64 {
        self.dims.iter().fold(1u64, |a, d| a.checked_mul(*d).expect("space too large"))
    }
    /// Last dimension varies fastest.
    pub fn decode(&self, mut i: u64) -> Vec<u64> {
        let mut out = vec![0; self.dims.len()];
        for k in (0..self.dims.len()).rev() {
            out[k] = i % self.dims[k];
            i /= self.dims[k];
        }
        out
    }
}

/// Indexes at which sample items are described for the evidence file.
pub fn sample_indexes(n: u64) -> Vec<u64> {
    if n == 0 {
        return vec![];
    }
    let mut v = vec![0, n / 3, (2 * n) / 3, n - 1];
    v.dedup();
    v
}
