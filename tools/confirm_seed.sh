#!/bin/bash
# tools/confirm_seed.sh <id> <crate> <demo test filter> [extra cargo test args]
# Independent confirmation of a seeded change in its scratch worktree /tmp/seed-<id>
# (left by the red-team agent with patch.diff and demo.patch applied):
#   1. with the change:   the crate's existing tests pass, the demonstration fails;
#   2. without the change: the demonstration passes.
# Writes /tmp/seed-<id>-out/confirm.txt.
id="$1"; crate="$2"; filter="$3"; shift 3
wt=/tmp/${SEED_PREFIX:-seed}-$id; out=/tmp/${SEED_PREFIX:-seed}-$id-out/confirm.txt
cd "$wt" || exit 2
export CARGO_NET_OFFLINE=true CARGO_TARGET_DIR=$wt/target
{
  echo "## with change: crate tests (expect only the demonstration to fail)"
  cargo test -p "$crate" --offline "$@" -- --skip tests::e2e 2>&1 | grep -E "^test result|FAILED|failed|panicked" | head -20
  echo "## with change: demonstration (expect FAIL)"
  cargo test -p "$crate" --offline "$@" -- "$filter" 2>&1 | grep -E "^test result|^test .*(ok|FAILED)" | head
  git apply -R /tmp/${SEED_PREFIX:-seed}-$id-out/patch.diff || echo "REVERT FAILED"
  echo "## without change: demonstration (expect ok)"
  cargo test -p "$crate" --offline "$@" -- "$filter" 2>&1 | grep -E "^test result|^test .*(ok|FAILED)" | head
  git apply /tmp/${SEED_PREFIX:-seed}-$id-out/patch.diff || echo "REAPPLY FAILED"
} > "$out" 2>&1
cat "$out"
