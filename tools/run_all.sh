#!/bin/bash
# tools/run_all.sh [quick|thorough] [ids...] — run checks sequentially, print one summary line each.
tier="${1:-quick}"; shift || true
ids="$@"; [ -z "$ids" ] && ids="C01 C02 C03 C04 C05 C06 C07 C08 C09 C10 C11 C12 C13 C14 C15 C16 C17 C18 C19 C20 C21 C22 C23 C24 C25 C26 C27 C28 C29 C30"
cd "$(dirname "$0")/.."
for id in $ids; do
  s=$(date +%s)
  out=$(./check $id --tier $tier 2>&1); rc=$?
  e=$(date +%s)
  echo "$id rc=$rc wall=$((e-s))s $(echo "$out" | grep -cE '^KNOWN-FINDING') known, $(echo "$out" | grep -cE '^VIOLATION') violations"
  echo "$out" | grep -E '^(VIOLATION|MACHINERY)' | cut -c1-300
done
