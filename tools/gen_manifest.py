#!/usr/bin/env python3
"""Generate /verif/MANIFEST.json from the table below. A property is claimed only when READY says so;
every other property is listed under not_applicable with the reason given here."""
import json, os, subprocess

ROOT = os.path.dirname(os.path.dirname(os.path.abspath(__file__)))

# id: (level category, technique, level text, level note / trusted base)
CHECKS = {
 "C01": ("fault_enumeration", "exhaustive enumeration of per-namespace tamper combinations on the serving repository, real radicle_fetch clone/pull over git upload-pack",
         "Every combination (within the stated alphabet) of tampering per namespace x fetch mode x refs_at is served to the real fetch code; the fetcher's refdb is compared before/after against independently re-verified signed refs.",
         "trusted: git upload-pack, libgit2, ed25519; alphabet of tamper kinds and 2-3 namespaces"),
 "C02": ("fault_enumeration", "exhaustive enumeration of delegate-set x threshold x per-delegate sigrefs state: real radicle_fetch pull, and real clones through the node worker (initiator and responder back to back)",
         "All delegate sets / thresholds / per-delegate sigrefs states in the bound are offered to the real fetch; ancestry of delegate sigrefs and the threshold gate are checked on the resulting storage.",
         "trusted: git upload-pack, libgit2; bounded to <=4 delegates (pull), <=3 remote delegates (worker clone)"),
 "C03": ("exploration", "exhaustive enumeration of labelled commit DAG shapes x delegate tip assignments x thresholds x object-id rank orders, real Canonical::quorum",
         "Every assignment over the DAG family is evaluated by the real quorum code on real git repositories and compared with a support-count oracle computed on the harness's own DAG.",
         "trusted: libgit2 merge-base; DAG family <=6 commits, <=5 delegates"),
 "C04": ("model_checking", "explicit-state BFS over identity operation histories applied with the real Identity::op (valid/invalid/duplicate signatures, strangers), invariants on every state",
         "All histories up to the depth/deviation bound over the action alphabet; majority, successor and non-delegate invariants evaluated in every reachable state; stride of histories replayed through real signed COB commits.",
         "trusted: ed25519, git object store; <=5 delegates"),
 "C05": ("exploration", "exhaustive enumeration of small change DAGs x timestamps x presentations (tip/namespace distributions, creation orders), differential on real cob::get",
         "For every DAG in the bound all presentations must evaluate to the same object and history.",
         "trusted: git object store; <=5 changes"),
 "C06": ("exploration", "exhaustive enumeration of change DAGs with invalid changes at every position, differential eval(H) vs eval(H minus dropped) on real cob::get",
         "Every placement of every invalid-change kind in the DAG family; the state after pruning must equal the state of the history without the pruned changes.",
         "trusted: git object store; <=5 changes"),
 "C07": ("model_checking", "explicit-state BFS over multi-actor issue/patch action histories applied with the real Issue::op / Patch::op against a role-table oracle",
         "All histories up to the bound; after every step by an actor the role table does not authorise the targeted projection must be unchanged.",
         "role table transcribed from the property statement; environment repository answers identity/ancestry queries from tables"),
 "C08": ("model_checking", "explicit-state BFS over merge/revision/lifecycle histories with the real Patch::op, threshold invariant on every state",
         "All histories up to the bound for thresholds 1..3; Merged state implies threshold distinct delegates recorded the same (revision, commit); lifecycle cannot leave Merged.",
         "permissive 'have recorded' reading"),
 "C09": ("model_checking", "explicit-state BFS over issue/patch operation histories on real storage; after every step every query on the sqlite cache is compared with direct evaluation",
         "All histories up to the bound; all query kinds x all identifiers that ever existed.",
         "trusted: sqlite, git"),
 "C10": ("model_checking", "explicit-state BFS over announcement deliveries (forged/stale/future/equal timestamps, unknown announcers, several relayers) and gossip ticks on a real Service",
         "All event histories up to the depth/deviation bound; every stored or written announcement is traced back to a receipt that satisfied the statement's conditions; echo rule checked on every write.",
         "in-memory stores; peers are key pairs driven by the harness"),
 "C11": ("model_checking", "explicit-state BFS over connect/subscribe/own-announce/relay/fetch/restart/visibility-change histories on a real Service, invariant on every written message",
         "All interleavings up to the bound for {delegate, allow-listed, stranger} peers.",
         "MockStorage stands in for git storage"),
 "C12": ("fault_enumeration", "full product of seeding policy x visibility x requester role x header encoding through the real responder path (hook H2)",
         "The whole configuration product is executed against real storage and policy databases; refusals must come before any byte is written.",
         "stub reactor behind runtime::Handle; git upload-pack trusted once admitted"),
 "C13": ("model_checking", "explicit-state BFS of boundary-valued message histories on a real Service plus exhaustive byte-level sweeps of the frame decoder and git request header parser in isolated worker processes",
         "13a: all message histories up to the bound in four session states; 13b/13c: all short byte strings and the full mutation neighbourhood of a frame/header corpus; any panic, abort or hang is a violation.",
         "debug assertions / overflow checks on as in the repository's test build"),
 "C14": ("exploration", "exhaustive enumeration of varint length encodings, split points of frame sequences and truncated inner messages against the real Deserializer with a counting allocator",
         "Every length encoding in the alphabet, every split point, every inner truncation.",
         "counting allocator observes requests; process isolation for oversize requests"),
 "C15": ("exploration", "exhaustive enumeration of boundary messages and of the mutation neighbourhood of their encodings through real wire::serialize/deserialize",
         "Round-trip for every constructible boundary message; unique encoding for every decodable byte string in the neighbourhood.",
         "alphabet of field boundary values"),
 "C16": ("model_checking", "explicit-state BFS over connect/disconnect/reconnect/fetch/announce/result interleavings on a real Service with the harness as wire layer (token model)",
         "All interleavings up to the depth/deviation bound; per-repository and per-peer in-flight invariants; result attribution checked on every delivery.",
         "wire forwarding rule transcribed from Wire::worker_result"),
 "C17": ("model_checking", "explicit-state BFS over request timelines (incl. backward clock steps) on the real RateLimiter with a window-budget oracle",
         "All timelines up to the bound for capacities x rates x host classes.",
         "-"),
 "C18": ("exploration", "exhaustive enumeration of JSON values up to a depth over a Unicode/number alphabet through the real canonical encoder",
         "Every value in the bounded universe.", "-"),
 "C19": ("exploration", "exhaustive enumeration of identity documents over boundary delegate/threshold/version/visibility/payload alphabets through real Doc decoding/encoding and Repository::init",
         "Every document in the product.", "-"),
 "C20": ("exploration", "exhaustive enumeration of ref sets and of single-point mutations of signed refs through real Refs::canonical/from_canonical and SignedRefs verification",
         "Every ref set <=3 and every single-bit flip / line edit of 4 signed sets.", "trusted: ed25519"),
 "C21": ("exploration", "exhaustive enumeration of structured keys/ids and of all short strings through real Display/FromStr",
         "Every value / string in the bounded universe.", "-"),
 "C22": ("exploration", "exhaustive enumeration of all triples of CRDT values over small closed domains and of LWW operation-list pairs against a reference model",
         "All triples for every provided CRDT; LWW reads against a greatest-clock model.", "-"),
 "C23": ("exploration", "exhaustive enumeration of all DAGs up to 5/6 nodes x relabellings x prune predicates x orderings through the real Dag API",
         "Every DAG in the bound.", "-"),
 "C24": ("model_checking", "explicit-state BFS over store operation histories on real sqlite stores with lock-step BTreeMap models",
         "All operation histories up to the bound per store.", "trusted: sqlite"),
 "C25": ("model_checking", "explicit-state BFS over configurations and result sequences on the real Announcer/Fetcher with a set-recomputation oracle",
         "All configurations over a 5-node universe and all event sequences up to the bound.", "reading-robust oracle (conjunctive or disjunctive target reading)"),
 "C26": ("exploration", "exhaustive enumeration of strings over a Unicode alphabet x widths x delimiters through the real truncation functions in isolated worker processes with a watchdog",
         "Every string up to the length bound.", "-"),
 "C27": ("exploration", "exhaustive enumeration of agent response bytes/structures through the real AgentClient with a stub stream, in isolated worker processes",
         "Every response in the bounded universe; key/signature patterns round-trip.", "-"),
 "C28": ("fault_enumeration", "exhaustive enumeration of remote-set x delegate-set x sigrefs presence on real Storage::clean",
         "Every configuration in the product.", "trusted: git"),
 "C29": ("model_checking", "explicit-state BFS over clock ticks (forward/stall/backward) and announcement-producing actions on a real Service",
         "All interleavings up to the bound; every created announcement's timestamp compared with all earlier ones.", "-"),
 "C30": ("exploration", "exhaustive enumeration of small tree pairs with adversarial line contents through real diff -> encode -> decode",
         "Every ordered pair of trees in the bound.", "trusted: git diff"),
}

# Properties whose check is built, run on the unchanged tree and triaged.
READY = set(open(os.path.join(ROOT, "tools", "ready.txt")).read().split())

def main():
    hooks = subprocess.run(["git", "-C", "/repo", "log", "--format=%H %s"], capture_output=True, text=True).stdout.splitlines()
    hook_commits = [l.split()[0] for l in hooks if " verif hook " in l]
    checks, na = [], []
    for pid in sorted(CHECKS):
        cat, tech, text, note = CHECKS[pid]
        if pid in READY:
            checks.append({
                "property_id": pid,
                "quick_cmd": f"./check {pid} --tier quick",
                "thorough_cmd": f"./check {pid} --tier thorough",
                "evidence_file": f"/verif/evidence/{pid}.json",
                "replay_cmd_template": f"./check {pid} --replay {{path}}",
                "engine": "mcx::explore" if cat == "model_checking" else "mcx::sweep",
                "level_claimed": {"category": cat, "text": text, "design_ref": f"DESIGN.md §5 {pid}"},
                "level_note": note,
                "technique": tech,
            })
        else:
            na.append({"property_id": pid, "reason": "not claimed yet: its bounded-exhaustive check (designed in DESIGN.md §5) is not finished/triaged in this revision; the technique applies"})
    m = {
        "version": 1,
        "setup_cmd": "cd /verif/harness && CARGO_NET_OFFLINE=true CARGO_TARGET_DIR=/verif/.target cargo build --offline --bins",
        "hooks": {
            "guard": "cargo feature `verif` of crate radicle-node (#[cfg(feature = \"verif\")]); nothing in the workspace enables it",
            "enable": "the harness crate chk-node depends on radicle-node with features [\"test\", \"verif\"] (path dependency on /repo/crates/radicle-node)",
            "baseline_off_cmd": "cd /repo && cargo nextest run --workspace --no-fail-fast --tool-config-file pb:/w/lib/nextest.toml --profile pb --test-threads 8 --offline",
            "source_commits": hook_commits,
            "add_only": True,
        },
        "engines": [
            {"name": "mcx::explore", "path": "harness/mcx/src/explore.rs", "serves_properties": sorted(p for p in READY if CHECKS[p][0] == "model_checking"),
             "kind_free_text": "explicit-state breadth-first search over event histories applied to the real objects (replay-from-scratch or fork), depth bound + deviation budget, deterministic level merge, replay-divergence detection"},
            {"name": "mcx::sweep", "path": "harness/mcx/src/sweep.rs", "serves_properties": sorted(p for p in READY if CHECKS[p][0] != "model_checking"),
             "kind_free_text": "exhaustive enumeration of an indexed finite input/fault space, in threads or in isolated worker processes with watchdog (abort / hang attribution), counting allocator"},
        ],
        "checks": checks,
        "not_applicable": na,
        "notes": "All checks are bounded-exhaustive (model-checking family): no sampling, no solver. Known findings: /verif/known_findings.json. Design and per-property bounds: /verif/DESIGN.md.",
    }
    json.dump(m, open(os.path.join(ROOT, "MANIFEST.json"), "w"), indent=1)
    print(f"claimed {len(checks)} not_applicable {len(na)}")

main()
