#!/usr/bin/env python3
"""tools/keep_seed.py <id> <name> '<needs>' '<detected_by json>' — file a confirmed seeded change under /verif/seeded/<name>/."""
import json, os, shutil, sys
pid, name, needs, det = sys.argv[1], sys.argv[2], sys.argv[3], json.loads(sys.argv[4])
PFX = os.environ.get("SEED_PREFIX", "seed")
src = f"/tmp/{PFX}-{pid}-out"; dst = f"/verif/seeded/{name}"
os.makedirs(dst, exist_ok=True)
for f in ("patch.diff", "demo.patch", "confirm.txt"):
    if os.path.exists(f"{src}/{f}"): shutil.copy(f"{src}/{f}", f"{dst}/{f}")
if os.path.exists(f"{src}/README.md"): shutil.copy(f"{src}/README.md", f"{dst}/author_notes.md")
base = os.popen(f"git -C /tmp/{PFX}-{pid} rev-parse HEAD").read().strip()
meta = {
  "property": pid, "base_commit": base,
  "origin": "independent sub-agent given only the property text and a scratch worktree of /repo (nothing from /verif)",
  "needs_to_manifest": needs,
  "ran": {
    "by_author": "see author_notes.md (crate builds, crate tests with the change, demonstration with / without the change)",
    "by_coordinator": "tools/confirm_seed.sh in the scratch worktree: crate unit tests with the change (e2e tests skipped: timing-sensitive on the loaded machine) — only the demonstration fails; demonstration fails with the change and passes with patch.diff reverted (confirm.txt)",
    "check_run": "tools/mutant_run.sh /tmp/" + PFX + "-%s %s --tier %s (harness copy built against the worktree; /repo untouched)" % (pid, pid, det.get("tier", "quick")),
  },
  "detected_by": det,
}
json.dump(meta, open(f"{dst}/meta.json", "w"), indent=1, ensure_ascii=False)
print("kept", dst, os.listdir(dst))
