#!/usr/bin/env python3
"""Validate MANIFEST.json and every evidence file against the schemas in /root/.vp."""
import json, sys, glob, os
try:
    import jsonschema
except ImportError:
    sys.path.insert(0, glob.glob('/opt/veriftools/pyvenv/lib/python3*/site-packages')[0])
    import jsonschema
root = os.path.dirname(os.path.dirname(os.path.abspath(__file__)))
bad = 0
def check(path, schema):
    global bad
    try:
        jsonschema.validate(json.load(open(path)), json.load(open(schema)))
        print("ok ", path)
    except Exception as e:
        bad += 1
        print("BAD", path, str(e).splitlines()[0])
if os.path.exists(root + '/MANIFEST.json'):
    check(root + '/MANIFEST.json', '/root/.vp/MANIFEST.schema.json')
for f in sorted(glob.glob(root + '/evidence/*.json')):
    check(f, '/root/.vp/EVIDENCE.schema.json')
sys.exit(1 if bad else 0)
