#!/bin/bash
# tools/mutant_run.sh <repo-worktree> <Cnn> [check args...]
# Runs a check against a *copy* of the repository (a scratch git worktree carrying a candidate
# property-breaking change) without touching /repo: the harness is copied to a scratch directory
# with its path dependencies rewritten to the worktree, built in its own target directory, and run
# from the scratch directory (evidence/replays land there; known_findings.json is copied from /verif). Prints the check's output; exit code is the check's.
set -u
wt="$(cd "$1" && pwd)"; id="$2"; shift 2
here="$(cd "$(dirname "$0")/.." && pwd)"
tag="$(echo "$wt" | tr '/' '_')"
scratch="${MUTANT_SCRATCH:-/var/tmp/mh$tag}"
mkdir -p "$scratch/evidence" "$scratch/replays"
rsync -a --delete --exclude target "$here/harness/" "$scratch/harness/"
cp "$here/check" "$scratch/check"
cp "$here/known_findings.json" "$scratch/known_findings.json" 2>/dev/null || true
grep -rl '"/repo/' "$scratch/harness" --include=Cargo.toml | xargs sed -i "s#\"/repo/#\"$wt/#g"
sed -i "s#^target-dir = .*#target-dir = \"$scratch/target\"#" "$scratch/harness/.cargo/config.toml"
if [ ! -d "$scratch/target" ] && [ -d "$here/.target" ]; then cp -r "$here/.target" "$scratch/target"; fi
cd "$scratch" || exit 2
VERIF_TARGET_DIR="$scratch/target" ./check "$id" "$@"
rc=$?
# the check script sets VERIF_ROOT to its own dir ($scratch); evidence is under $scratch/evidence
exit $rc
