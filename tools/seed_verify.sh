#!/bin/bash
# tools/seed_verify.sh [ids...] — the interface way of running a check against a seeded change:
# apply seeded/<id>/patch.diff to /repo, run ./check <id> (tier from meta.json), undo the patch.
# Writes seeded/RESULTS.md lines to stdout. /repo must be clean; it is restored after every seed.
cd "$(dirname "$0")/.." || exit 2
ids="$@"; [ -z "$ids" ] && ids="$(ls seeded | grep '^C')"
if [ -n "$(git -C /repo status --porcelain)" ]; then echo "/repo is not clean" >&2; exit 2; fi
for id in $ids; do
  tier=$(python3 -c "import json;print(json.load(open('seeded/$id/meta.json'))['detected_by'].get('tier','quick'))")
  if ! git -C /repo apply "$PWD/seeded/$id/patch.diff"; then echo "| $id | patch does not apply | | |"; continue; fi
  s=$(date +%s)
  out=$(./check "${id%%-*}" --tier "$tier" 2>&1); rc=$?
  e=$(date +%s)
  git -C /repo checkout -- .
  fps=$(echo "$out" | grep -E '^  fingerprint=' | sed -E 's/^  fingerprint=([^ ]+) instances=.*/\1/' | cut -c1-110 | tr '\n' ' ')
  echo "| $id | $tier | exit $rc in $((e-s)) s | $(echo "$out" | grep -c '^VIOLATION') VIOLATION line(s): $fps |"
done
