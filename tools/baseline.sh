#!/bin/bash
# Runs the repository's pinned test suite (hooks OFF: nothing in the workspace enables the
# `verif` feature) exactly as /root/.vp/BASELINE.json does, and prints a pass/fail summary.
cd /repo || exit 2
out="${1:-/var/tmp/baseline.log}"
if [ -f /w/lib/nextest.toml ]; then
  cargo nextest run --workspace --no-fail-fast --tool-config-file pb:/w/lib/nextest.toml --profile pb --test-threads 8 --offline >"$out" 2>&1
else
  cargo test --workspace --no-fail-fast --offline >"$out" 2>&1
fi
rc=$?
grep -E "^\s*Summary|^\s+(FAIL|SIGABRT|TIMEOUT|LEAK)|test result:|FAILED" "$out" | sort | uniq -c | tail -30
exit $rc
