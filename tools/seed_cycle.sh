#!/bin/bash
# tools/seed_cycle.sh <id> <crate> <demo filter> <tier> [extra cargo args] — confirm a seed and run its check against it.
id="$1"; crate="$2"; filter="$3"; tier="$4"; shift 4
here="$(cd "$(dirname "$0")/.." && pwd)"
{
  echo "##### confirm $id"; "$here/tools/confirm_seed.sh" "$id" "$crate" "$filter" "$@"
  echo "##### check $id --tier $tier against the seeded worktree"
  "$here/tools/mutant_run.sh" /tmp/${SEED_PREFIX:-seed}-$id "$id" --tier "$tier" 2>&1 | grep -E "^(VIOLATION|KNOWN|OK|MACHINERY|  fingerprint|C[0-9]+ tier|error)" | cut -c1-400
} > /var/tmp/cycle-${SEED_PREFIX:-seed}-$id.log 2>&1
